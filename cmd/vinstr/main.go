// vinstr: prototype source-to-source instrumenter (scratch copy only).
package main

import (
	"bytes"
	"fmt"
	"go/ast"
	"go/format"
	"go/parser"
	"go/token"
	"os"
	"path/filepath"
	"strconv"
	"strings"

	"golang.org/x/tools/go/ast/astutil"
)

const (
	rtPath   = "verif/sim/simrt"
	syncPath = "verif/sim/simsync"
	osPath   = "verif/sim/simos"
)

// exported identifiers of simos (filled by loadSimosExports)
var simosExports = map[string]bool{}
var swapOS = true

func loadSimosExports(dir string) {
	fset := token.NewFileSet()
	pkgs, err := parser.ParseDir(fset, dir, nil, 0)
	if err != nil {
		fmt.Println("vinstr: cannot parse simos:", err)
		os.Exit(2)
	}
	for _, p := range pkgs {
		for _, f := range p.Files {
			for _, d := range f.Decls {
				switch v := d.(type) {
				case *ast.FuncDecl:
					if v.Recv == nil {
						simosExports[v.Name.Name] = true
					}
				case *ast.GenDecl:
					for _, sp := range v.Specs {
						switch s := sp.(type) {
						case *ast.TypeSpec:
							simosExports[s.Name.Name] = true
						case *ast.ValueSpec:
							for _, n := range s.Names {
								simosExports[n.Name] = true
							}
						}
					}
				}
			}
		}
	}
}

func sel(pkg, name string) ast.Expr {
	return &ast.SelectorExpr{X: ast.NewIdent(pkg), Sel: ast.NewIdent(name)}
}

func call(fn ast.Expr, args ...ast.Expr) *ast.CallExpr {
	return &ast.CallExpr{Fun: fn, Args: args}
}

func isLiteralish(e ast.Expr) bool {
	switch v := e.(type) {
	case *ast.BasicLit:
		return true
	case *ast.Ident:
		return v.Name == "nil" || v.Name == "true" || v.Name == "false"
	}
	return false
}

func instrumentFile(fset *token.FileSet, f *ast.File) (changed bool) {
	// names under which "time" is imported
	timeName := ""
	for _, im := range f.Imports {
		p, _ := strconv.Unquote(im.Path.Value)
		switch p {
		case "sync":
			im.Path.Value = strconv.Quote(syncPath)
			im.Name = ast.NewIdent("sync")
			changed = true
		case "os":
			if swapOS && (im.Name == nil || im.Name.Name == "os") {
				im.Path.Value = strconv.Quote(osPath)
				im.Name = ast.NewIdent("os")
				changed = true
				ast.Inspect(f, func(n ast.Node) bool {
					if se, ok := n.(*ast.SelectorExpr); ok {
						if id, ok := se.X.(*ast.Ident); ok && id.Name == "os" && id.Obj == nil {
							if !simosExports[se.Sel.Name] {
								fmt.Printf("vinstr: simos lacks os.%s (used in %s)\n", se.Sel.Name, fset.Position(se.Pos()))
								os.Exit(2)
							}
						}
					}
					return true
				})
			}
		case "time":
			timeName = "time"
			if im.Name != nil {
				timeName = im.Name.Name
			}
		}
	}
	usedRT := false
	tmp := 0
	inComm := map[ast.Node]bool{}
	ast.Inspect(f, func(n ast.Node) bool {
		if cc, ok := n.(*ast.CommClause); ok && cc.Comm != nil {
			inComm[cc.Comm] = true
			// also the receive expression inside an assignment / expr stmt
			switch s := cc.Comm.(type) {
			case *ast.AssignStmt:
				for _, r := range s.Rhs {
					inComm[r] = true
				}
			case *ast.ExprStmt:
				inComm[s.X] = true
			}
		}
		return true
	})

	astutil.Apply(f, func(c *astutil.Cursor) bool {
		return true
	}, func(c *astutil.Cursor) bool {
		switch n := c.Node().(type) {
		case *ast.GoStmt:
			var stmts []ast.Stmt
			fname := fmt.Sprintf("simF%d", tmp)
			tmp++
			lhs := []ast.Expr{ast.NewIdent(fname)}
			rhs := []ast.Expr{n.Call.Fun}
			var args []ast.Expr
			for _, a := range n.Call.Args {
				if isLiteralish(a) {
					args = append(args, a)
					continue
				}
				an := fmt.Sprintf("simA%d", tmp)
				tmp++
				lhs = append(lhs, ast.NewIdent(an))
				rhs = append(rhs, a)
				args = append(args, ast.NewIdent(an))
			}
			stmts = append(stmts, &ast.AssignStmt{Lhs: lhs, Tok: token.DEFINE, Rhs: rhs})
			inner := &ast.CallExpr{Fun: ast.NewIdent(fname), Args: args, Ellipsis: n.Call.Ellipsis}
			lit := &ast.FuncLit{Type: &ast.FuncType{Params: &ast.FieldList{}},
				Body: &ast.BlockStmt{List: []ast.Stmt{&ast.ExprStmt{X: inner}}}}
			stmts = append(stmts, &ast.ExprStmt{X: call(sel("simrt", "Go"), lit)})
			c.Replace(&ast.BlockStmt{List: stmts})
			usedRT = true
		case *ast.SendStmt:
			if inComm[n] {
				return true
			}
			c.Replace(&ast.ExprStmt{X: call(sel("simrt", "Send"), n.Chan, n.Value)})
			usedRT = true
		case *ast.AssignStmt:
			if inComm[n] {
				return true
			}
			if len(n.Lhs) == 2 && len(n.Rhs) == 1 {
				if ce, ok := n.Rhs[0].(*ast.CallExpr); ok {
					if se, ok := ce.Fun.(*ast.SelectorExpr); ok {
						if id, ok := se.X.(*ast.Ident); ok && id.Name == "simrt" && se.Sel.Name == "Recv" {
							se.Sel.Name = "Recv2"
						}
					}
				}
			}
		case *ast.UnaryExpr:
			if n.Op == token.ARROW && !inComm[n] {
				c.Replace(call(sel("simrt", "Recv"), n.X))
				usedRT = true
			}
		case *ast.SelectStmt:
			for _, cl := range n.Body.List {
				cc := cl.(*ast.CommClause)
				cc.Body = append([]ast.Stmt{&ast.ExprStmt{X: call(sel("simrt", "Woken"))}}, cc.Body...)
			}
			if c.Index() >= 0 {
				c.InsertBefore(&ast.ExprStmt{X: call(sel("simrt", "PreSelect"))})
			}
			usedRT = true
		case *ast.CallExpr:
			if se, ok := n.Fun.(*ast.SelectorExpr); ok && timeName != "" {
				if id, ok := se.X.(*ast.Ident); ok && id.Name == timeName && se.Sel.Name == "Sleep" {
					n.Fun = sel("simrt", "Sleep")
					usedRT = true
				}
			}
		}
		return true
	})
	if usedRT {
		astutil.AddImport(fset, f, rtPath)
		changed = true
		// "time" may have become unused
		if timeName != "" && !astutil.UsesImport(f, "time") {
			astutil.DeleteImport(fset, f, "time")
		}
	}
	return
}

func main() {
	if len(os.Args) < 3 {
		fmt.Println("usage: vinstr <simos-dir> dir...")
		os.Exit(2)
	}
	loadSimosExports(os.Args[1])
	nfiles := 0
	for _, dir := range os.Args[2:] {
		ents, err := os.ReadDir(dir)
		if err != nil {
			fmt.Println(err)
			os.Exit(2)
		}
		for _, e := range ents {
			if e.IsDir() || !strings.HasSuffix(e.Name(), ".go") || strings.HasSuffix(e.Name(), "_test.go") {
				continue
			}
			fn := filepath.Join(dir, e.Name())
			fset := token.NewFileSet()
			f, err := parser.ParseFile(fset, fn, nil, parser.ParseComments)
			if err != nil {
				fmt.Println("parse", fn, err)
				os.Exit(2)
			}
			if !instrumentFile(fset, f) {
				continue
			}
			var buf bytes.Buffer
			if err := format.Node(&buf, fset, f); err != nil {
				fmt.Println("format", fn, err)
				os.Exit(2)
			}
			if err := os.WriteFile(fn, buf.Bytes(), 0644); err != nil {
				fmt.Println(err)
				os.Exit(2)
			}
			nfiles++
		}
	}
	fmt.Println("instrumented files:", nfiles)
}
