package main

// Packages of /repo that the rewriter instruments in the scratch copy.
var instrPkgs = []string{
	"lib/utxo", "lib/chain", "lib/btc", "lib/others/qdb", "lib/others/memory", "lib/others/sys",
	"client/common", "client/txpool", "client/wallet", "client/peersdb", "client/network",
	"client/mainlib", // generated in the scratch copy from client/*.go (package main -> importable), see mkMainlib
}

type tierParams struct {
	Runs           int // simulated runs (cases)
	BudgetS        int // wall-clock budget of the search (build excluded)
	PerRunS        int // watchdog per run
	RaceRuns       int // runs repeated as a -race binary (0 = no race arm)
	RaceBudgetS    int
	ShrinkAttempts int
	ShrinkS        int
}

type propSpec struct {
	ID              string
	Harness         string
	Level           string
	Chunk           int // runs per child process
	Workers         int
	Quick, Thorough tierParams
	HangIsViolation bool
	Rule            string
	Components      map[string][]string
	Assumptions     []string
	ExpectProbes    []string
	Also            []alsoSpec // further harnesses run under the same property id
}

type alsoSpec struct {
	Harness                         string
	Chunk                           int
	QuickRuns, QuickBudgetS         int
	ThoroughRuns, ThoroughBudgetS   int
	RaceRuns, RaceBudgetS           int
}

var commonSim = []string{"goroutine scheduler (simrt: seeded token scheduler on testing/synctest)", "clock (synctest fake clock)", "sync.Mutex/RWMutex/WaitGroup (simsync shims)", "map iteration / select order (runtime overlay seeded per run)"}

var specs = map[string]*propSpec{
	"C19": {
		ID: "C19", Harness: "qdbsim", Level: "fault_enumeration", Chunk: 40,
		Quick:    tierParams{Runs: 3000, BudgetS: 60, PerRunS: 60, RaceRuns: 150, RaceBudgetS: 25, ShrinkAttempts: 200, ShrinkS: 60},
		Thorough: tierParams{Runs: 40000, BudgetS: 900, PerRunS: 120, RaceRuns: 2000, RaceBudgetS: 240, ShrinkAttempts: 600, ShrinkS: 240},
		Rule: "one case = seeded configuration (thresholds, volatile, load mode, key count) + operation history (put/del/get/browse/flags/sync/nosync/defrag/flush/close/reopen from 1-2 simulated client goroutines) + scheduler seed; every file-system effect of the history is a crash point (all of them in thorough, a seeded subset biased to renames/removes/first-last writes in quick), each recovered in a fresh DB instance and compared with the map model under the 'last synced or later written' relaxation; after recovery the store must accept further writes, sync, close and reopen exactly; torn last writes are explored and counted but not judged (outside the statement). evaluations = live histories + crash images recovered. distinct_nontrivial = distinct (schedule-trace hash, final-state hash) pairs among runs with >=2 goroutine switches or >=1 injected fault.",
		Components: map[string][]string{
			"real":      {"lib/others/qdb (all files, mechanically instrumented: sync->simsync, os->simos, go/chan/select/Sleep->simrt)"},
			"simulated": append([]string{"disk effects (simos: pass-through to real files + effect log + crash-image materialisation)", "process death (image of effects[0:k], optional torn write k)", "client goroutines"}, commonSim...),
			"restated":  {},
		},
		Assumptions: []string{
			"process-death crash model: every effect handed to the kernel survives, buffered bytes do not; no power-loss reordering of un-synced writes",
			"interleavings are explored at scheduling-point granularity (shim calls); finer-grained conflicts are left to the race-detector arm",
			"keys 3-12, values 0-70000 bytes, histories <= 80 operations, 1-3 client goroutines",
		},
		ExpectProbes: []string{"auto_defrag", "forced_defrag", "reopen_clean", "crash_in_sync", "crash_in_defrag", "crash_in_background_goroutine", "torn_write_images", "concurrent_clients", "peersdb_style_expiry"},
	},
	"C16": {
		ID: "C16", Harness: "blockdbsim", Level: "exploration", Chunk: 25,
		Quick:    tierParams{Runs: 5000, BudgetS: 60, PerRunS: 120, RaceRuns: 250, RaceBudgetS: 30, ShrinkAttempts: 200, ShrinkS: 60},
		Thorough: tierParams{Runs: 60000, BudgetS: 900, PerRunS: 300, RaceRuns: 3000, RaceBudgetS: 300, ShrinkAttempts: 600, ShrinkS: 240},
		Rule: "one case = option set (compression, cache 1-8, max data-file size 4 KiB-1 MiB or unlimited, files to keep 0-3, backup) + 2-40 blocks of 81 B-1 MiB (4 MB and the 16 MB flush threshold in a few thorough/quick cases; five content classes for snappy) + history of add / re-add trusted / get (3 API paths) / length / trusted / invalid / idle / tick / close+reopen, the writer on one simulated goroutine and 0-3 reader goroutines, + scheduler seed. Oracle: map model hash->(bytes, trusted, height, txs, invalid) with data-file assignment observed from the effect log (retention rule), exact index listing after every reopen, append-after-reopen, porcupine on concurrent histories. distinct_nontrivial = distinct (schedule-trace hash, final-state hash) among runs with >=2 goroutine switches.",
		Components: map[string][]string{
			"real":      {"lib/chain/blockdb.go (instrumented)", "lib/others/snappy (as is)", "lib/btc hashing (as is)"},
			"simulated": append([]string{"disk (simos pass-through + effect log)", "client goroutines (1 writer, 0-3 readers)", "LRU clock ticks"}, commonSim...),
			"restated":  {"btc.Block values are built by the harness (Raw, Hash=sha256d(Raw[:80]), TxCount, Trusted) without parsing"},
		},
		Assumptions: []string{
			"writers (add/idle/invalid/trusted/close) run on one goroutine, as in the client; readers are concurrent",
			"a block that was marked invalid is not re-added; BlockInvalid is not called on trusted blocks (it panics by design)",
			"crash points and truncations of the block files are exercised under C07, not here (C16 quantifies over histories and configurations)",
		},
		ExpectProbes: []string{"datfile_rollover", "datfile_removed", "reopen", "concurrent_phases", "invalid_written_block", "invalid_queued_block", "readd_as_trusted"},
	},
	"C20": {
		ID: "C20", Harness: "memsim", Level: "exploration", Chunk: 20, HangIsViolation: false,
		Quick:    tierParams{Runs: 2400, BudgetS: 60, PerRunS: 120, RaceRuns: 120, RaceBudgetS: 30, ShrinkAttempts: 200, ShrinkS: 60},
		Thorough: tierParams{Runs: 40000, BudgetS: 900, PerRunS: 300, RaceRuns: 2000, RaceBudgetS: 300, ShrinkAttempts: 600, ShrinkS: 240},
		Rule: "one case = 1-16 simulated client goroutines issuing Malloc(size)/verify/Free (sizes at every class boundary +-1, 0, tiny, private-mapping path up to 200 KiB; optionally concentrated on three hot sizes), barriers, hand-over of allocations between goroutines, bursts that fragment a big size class beyond the defragmentation threshold followed by DefragAllImproved with 0-3 concurrent readers, + scheduler seed. Oracle: shadow table (length, capacity, data pointer = header+24, fill pattern derived from the allocation id, pairwise disjoint extents, Allocs == live, relocate exactly once per moved allocation with the new location already holding the bytes, untouched non-moved allocations). distinct_nontrivial = distinct (schedule-trace hash, final-state hash) among runs with >=2 goroutine switches.",
		Components: map[string][]string{
			"real":      {"lib/others/memory (all files, instrumented; real mmap/munmap)"},
			"simulated": append([]string{"client goroutines, readers during defragmentation"}, commonSim...),
			"restated":  {"the reader/relocation locking of UnspentDB is restated as one RWMutex around the shadow table"},
		},
		Assumptions: []string{
			"DefragAllImproved runs with no concurrent Malloc/Free (its documented contract); readers of live slices are concurrent",
			"the race detector does not shadow mmap'ed memory: races on slot contents are visible only through the pattern oracle",
			"a fault (SIGSEGV) in a harness goroutine becomes a panic (SetPanicOnFault) and is reported; elsewhere it kills the child and is reported after a confirming re-run",
		},
		ExpectProbes: []string{"concurrent_phases", "fragmentation_burst", "defrag_moved_records", "defrag_passes_noop", "readers_during_defrag", "handover"},
		// the allocator under its real client: lib/utxo records of a node processing forks and reorganisations
		// live in it (Malloc/Free from commit, undo, snapshot load, DefragAllImproved + UnspentDB.Relocate)
		Also: []alsoSpec{{Harness: "chainsim", Chunk: 6, QuickRuns: 120, QuickBudgetS: 40, ThoroughRuns: 6000, ThoroughBudgetS: 600}},
	},
	"C06": chainSpec("C06", "exploration"),
	"C04": chainSpec("C04", "exploration"),
	"C07": c07Spec(),
	"C11": c11Spec(),
	"C17": c17Spec(),
	"C02": c02Spec(),
	"C12": c12Spec(),
	"C18": c18Spec(),
	"C05": chainSpec("C05", "exploration"),
}

var chainComponents = map[string][]string{
	"real":      {"lib/chain (instrumented)", "lib/utxo (instrumented)", "lib/btc (instrumented)", "lib/script, lib/secp256k1, lib/others/snappy (as they are)"},
	"simulated": append([]string{"disk (simos pass-through + effect log + crash images)", "miners and block delivery (loss, duplication, reordering, withheld parents)", "independent signer with its own legacy/BIP143/BIP341 digests", "operator (idle, save, tick, close, reopen)"}, commonSim...),
	"restated":  {"client/main.go dispatch of received blocks (parent unknown -> wait and retry; RPC path CheckBlock+AcceptBlock)", "tail of NewChainExt for rule sets other than the test-net-4-like one (the harness must set its own consensus parameters between opening and re-applying blocks); the client's start-up replay is NOT re-stated any more: do_the_blocks, HandleNetBlock, LocalAcceptBlock and retry_cached_blocks run as they are (client/mainlib = client/*.go with the package clause changed), only the select loop around network.NetBlocks and the initialisation of common.BlockChain / network maps that main() and host_init() do is the harness's"},
}

func chainSpec(id, level string) *propSpec {
	return &propSpec{
		ID: id, Harness: "chainsim", Level: level, Chunk: 6, Workers: 16,
		Quick:    tierParams{Runs: 900, BudgetS: 75, PerRunS: 120, RaceRuns: 0, RaceBudgetS: 0, ShrinkAttempts: 120, ShrinkS: 90},
		Thorough: tierParams{Runs: 20000, BudgetS: 1200, PerRunS: 300, RaceRuns: 0, RaceBudgetS: 0, ShrinkAttempts: 400, ShrinkS: 300},
		Rule: "one case = rule-set parameters (activation heights, main/test-net difficulty rule, block-store and snapshot knobs) + a block tree grown by the simulated miner on top of a 115-block prefix (forks of depth 1-6, equal-work siblings, children of invalid blocks, blocks violating one contextual rule) + a delivery schedule (reordering, duplicates, losses, late arrivals) interleaved with idle/save/tick/reopen + scheduler seed. distinct_nontrivial = distinct (schedule-trace hash, final tip + unspent-set size) among runs with >=2 goroutine switches or >=1 injected fault.",
		Components: chainComponents,
		Assumptions: []string{
			"script validity is taken from the generator's ground-truth label per input (valid signature / one corruption); the reference ledger does not interpret scripts",
			"most cases run on a 115-block prefix where every block carries the same proof-of-work target (most work = most blocks, first seen wins ties); mixed difficulty (retarget boundary at 4032, test-net minimum-difficulty blocks, heavier-but-shorter branches) only in the long-prefix variants: a quarter of the C05/C06 cases, 8 % of the C07 cases",
			"fork depth <= 6, <= 36 blocks beyond the prefix, <= 7 transactions per block (C11: 8-45)",
		},
		ExpectProbes: []string{"reorg", "accepted", "refused", "clean_reopen"},
	}
}

func c07Spec() *propSpec {
	s := chainSpec("C07", "fault_enumeration")
	s.Chunk = 3
	s.Quick = tierParams{Runs: 110, BudgetS: 80, PerRunS: 300, ShrinkAttempts: 80, ShrinkS: 120}
	s.Thorough = tierParams{Runs: 4000, BudgetS: 1500, PerRunS: 2400, ShrinkAttempts: 300, ShrinkS: 400}
	s.Rule = "one case = a chain history as in C06 (extend the tip, save through Idle/Save with paced and unpaced snapshot writers, blocks arriving while a save is running, reorganisations after a completed save, invalid side blocks, data-file roll-over, clean restarts) executed once under the deterministic scheduler with the complete file-system effect log recorded; then the data directory as the kernel had it just before effect k is materialised (every k in thorough; a seeded subset weighted towards renames/removes/creates, index records, flag bytes and effects of background goroutines in quick), opened by a fresh node through the library recovery path or the client's start-up loop, judged (opens; tip is a ledger-valid block delivered before the crash; unspent set = replay of that tip), re-fed the whole history (same final work and exact unspent set as the uninterrupted run) . evaluations = histories + crash images recovered; distinct_nontrivial = distinct (schedule-trace hash, final state) among runs with >= 1 crash image."
	s.Assumptions = append(s.Assumptions, "process-death crash model: what was handed to the kernel survives, user-space buffers do not; no power-loss reordering", "after a crash an equally valid tip of equal work is accepted as 'same final state' (first-seen order is not durable)")
	s.ExpectProbes = []string{"crash_in_snapshot_save", "crash_between_utxo_renames", "crash_in_undo_write", "crash_before_index_record", "crash_before_block_data", "crash_in_background_goroutine", "reorg_after_snapshot"}
	return s
}

func c11Spec() *propSpec {
	s := chainSpec("C11", "exploration")
	s.Chunk = 4
	s.Quick = tierParams{Runs: 500, BudgetS: 60, PerRunS: 300, RaceRuns: 60, RaceBudgetS: 60, ShrinkAttempts: 80, ShrinkS: 120}
	s.Thorough = tierParams{Runs: 12000, BudgetS: 1200, PerRunS: 900, RaceRuns: 1500, RaceBudgetS: 900, ShrinkAttempts: 300, ShrinkS: 400}
	s.Rule = "one case = a history of 6-14 fan-out blocks (8-45 transactions: several hashing packs, more than 32 spent and created records, in-block spend chains) with a snapshot started (Idle / operator save, paced 0-5 s) before most blocks so that the next block aborts it in an arbitrary phase, HurryUp, forced map defragmentation, Close during a save, clean restarts; yield probability 0.05-0.5 at every scheduling point, seeded lock hand-over, timers racing with runnable goroutines. Oracles: verdicts, tip and decoded unspent set equal the reference ledger (schedule independence); every snapshot is parsed at the instant it is renamed to UTXO.db and must equal the ledger's unspent set of exactly the block in its header; no *.db.tmp survives Close; no deadlock; the race-detector arm repeats seeds with the simulator's hand-over edges hidden. distinct_nontrivial = distinct (schedule-trace hash, final state)."
	s.ExpectProbes = []string{"snapshot_became_visible", "defrag_map", "reorg", "idle_started_save", "explicit_save"}
	return s
}

func c17Spec() *propSpec {
	s := chainSpec("C17", "exploration")
	s.Quick = tierParams{Runs: 600, BudgetS: 60, PerRunS: 300, RaceRuns: 40, RaceBudgetS: 45, ShrinkAttempts: 80, ShrinkS: 120}
	s.Thorough = tierParams{Runs: 16000, BudgetS: 1200, PerRunS: 900, RaceRuns: 1000, RaceBudgetS: 600, ShrinkAttempts: 300, ShrinkS: 400}
	s.Rule = "one case = a chain history as in C06 (reorganisations, invalid blocks, restarts; 30% with fan-out blocks whose 32-record insert/delete batches fire the callbacks concurrently) with client/wallet attached the way the client does it (LoadBalancesFromUtxo installs NotifyTxAdd/Del), list->map switch-over at 2-6 outputs, minimum value 0 / 1000 / 5 / 15 / 25 BTC, outputs to ~70 addresses of the five indexed types plus OP_TRUE, OP_RETURN and odd scripts, index switched off and rebuilt from the populated set mid-history. After every delivery, for every address ever paid: the (txid, vout, value, height, coinbase) multiset from wallet.GetAllUnspent equals the projection of the reference ledger's unspent set at or above the minimum, and per address type the number of addresses, outputs and the total from wallet.Browse equal the projection's."
	s.Components = map[string][]string{
		"real":      append([]string{"client/wallet (instrumented; db.go, onoff.go and the save/restore of disk.go)", "client/common (instrumented; configuration globals)"}, chainComponents["real"]...),
		"simulated": chainComponents["simulated"],
		"restated":  append([]string{"client/init.go wiring: common.BlockChain, home dir, AllBalances options, then wallet.LoadBalancesFromUtxo()"}, chainComponents["restated"]...),
	}
	s.ExpectProbes = []string{"wallet_compared", "index_switched_off", "index_built_from_populated_set", "reorg"}
	return s
}

func c02Spec() *propSpec {
	return &propSpec{
		ID: "C02", Harness: "sigsim", Level: "exploration", Chunk: 60, Workers: 16,
		Quick:    tierParams{Runs: 6000, BudgetS: 30, PerRunS: 60, RaceRuns: 400, RaceBudgetS: 25, ShrinkAttempts: 150, ShrinkS: 60},
		Thorough: tierParams{Runs: 200000, BudgetS: 600, PerRunS: 120, RaceRuns: 10000, RaceBudgetS: 300, ShrinkAttempts: 400, ShrinkS: 200},
		Also:     []alsoSpec{{Harness: "chainsim", Chunk: 6, QuickRuns: 200, QuickBudgetS: 45, ThoroughRuns: 8000, ThoroughBudgetS: 900}},
		Rule: "two arms. (1) cache clause: one btc.Tx object with 1-8 inputs (P2PKH, P2WPKH, P2SH-P2WPKH, P2TR coins) and 1-8 outputs; 1-8 simulated goroutines issue 2-64 digest requests (legacy incl. 4-byte hash types, BIP143, BIP341 key path with and without annex, tapscript; all seven defined hash types, in and out of SIGHASH_SINGLE range) in a seeded order and interleaving (yield inside the hashLock critical section); every digest must equal the one a FRESH object returns for that single request, and - where the harness's own implementation of the BIP covers the request - the definition; a race-detector arm repeats seeds. (2) two-party clause: chain histories (as C04) whose every transaction is signed by the independent signer over its own digests with drawn hash types; a block the ledger calls valid must not be refused for a script failure and a block with a corrupted signature (four kinds, incl. the two taproot cases where no digest is defined) must not be connected. distinct_nontrivial = distinct (schedule-trace hash, digest-set hash / final state).",
		Components: map[string][]string{
			"real":      {"lib/btc Tx.SignatureHash / WitnessSigHash / TaprootSigHash (instrumented package)", "lib/script via the chain arm", "lib/chain + lib/utxo (chain arm)"},
			"simulated": append([]string{"digest-requesting goroutines", "independent signer with its own legacy/BIP143/BIP341 digests", "miner, block delivery (chain arm)"}, commonSim...),
			"restated":  {},
		},
		Assumptions: []string{
			"equality with the three definitions is sampled, not decided, for: script codes with OP_CODESEPARATOR or embedded signatures (FindAndDelete), annex and tapscript digests (compared with a fresh object only)",
			"the chain arm reports only script-related disagreements under C02 (a refused valid block whose error is a script failure; a connected block with a corrupted signature)",
		},
		ExpectProbes: []string{"compared_with_reference_legacy", "compared_with_reference_bip143", "compared_with_reference_bip341", "fresh_object_only_tapscript"},
	}
}

func c12Spec() *propSpec {
	return &propSpec{
		ID: "C12", Harness: "poolsim", Level: "exploration", Chunk: 1, Workers: 16, HangIsViolation: true, // one case per process: txpool keeps unexported package state (expiry timer)
		Quick:    tierParams{Runs: 900, BudgetS: 75, PerRunS: 60, RaceRuns: 0, ShrinkAttempts: 120, ShrinkS: 120},
		Thorough: tierParams{Runs: 16000, BudgetS: 1200, PerRunS: 900, RaceRuns: 0, ShrinkAttempts: 400, ShrinkS: 400},
		Rule: "one case = pool options (full/opt-in RBF, expiry 1-14 days, reject-ring size, fee floor, block-commit flag, optional eviction scenario of 125 transactions of ~100 kB) + 4-120 operations, each with its own seed: submit a transaction through the peer / local / trusted path (valid, child and diamond of unconfirmed parents, double spend with lower and higher fee, orphan before parent and the parent later, corrupted signature, overspend, immature coinbase, duplicate of a pooled/rejected/mined transaction, same input twice, non-final), a descendant chain of up to 130 followed by a replacement of its root, mine a block from the pool's own fee-ordered listing / with unknown and conflicting transactions / empty, reorganise 1-3 blocks, clock jumps of 1 s - 16 days followed by Tick(), reject-ring resize, save + reload. After every operation the stated invariants are recomputed from the exported pool state and the reference ledger; a block assembled from a listing prefix must be valid per the ledger and accepted by the node. distinct_nontrivial = distinct (schedule-trace hash, final state).",
		Components: map[string][]string{
			"real":      append([]string{"client/txpool (instrumented)", "client/common (instrumented; configuration through CFG + Reset())"}, chainComponents["real"]...),
			"simulated": append([]string{"peers and the local user submitting transactions", "miner building blocks from the node's listing", "clock jumps"}, chainComponents["simulated"]...),
			"restated":  {"client/main.go: blockMined/blockUndone callbacks -> txpool.BlockMined/BlockUndone, update of common.Last and script flags after each block, optional BlockCommitInProgress bracket", "network.ParseTxNet: NeedThisTxExt + TransactionsPending + HandleNetTx"},
		},
		Assumptions: []string{
			"acceptance policy (fee floors, which of two conflicting transactions wins, standardness) is not part of the oracle",
			"transactions are always created by the harness's signer; script validity label comes from it",
			"txpool keeps its expiry timer in an unexported package variable initialised from the real clock: the simulated clock therefore starts in 2030+",
		},
		ExpectProbes: []string{"tx_accepted", "unconfirmed_child_accepted", "replacement_accepted", "orphan_before_parent", "block_from_pool_listing", "block_connected_with_txs", "blocks_undone", "expired_or_evicted_on_tick", "save_load", "rbf_gt_100", "pool_checked_nonempty"},
	}
}

func c18Spec() *propSpec {
	return &propSpec{
		ID: "C18", Harness: "netsim", Level: "exploration", Chunk: 1, Workers: 16, HangIsViolation: true, // one case per process: client/network keeps package-level maps (blocks to get, received, discarded)
		Quick:    tierParams{Runs: 1500, BudgetS: 100, PerRunS: 240, RaceRuns: 0, ShrinkAttempts: 120, ShrinkS: 120},
		Thorough: tierParams{Runs: 20000, BudgetS: 1200, PerRunS: 900, RaceRuns: 0, ShrinkAttempts: 400, ShrinkS: 400},
		Rule: "one case = 1-4 simulated peers, each sending 1-40 messages drawn from all commands of the property's list plus unknown ones, before and after version; payloads valid (built from the node's real state: real hashes, locators, new valid headers/blocks/transactions, fully prefilled compact blocks), or valid with one structural mutation (bit flips, truncation, trailing garbage, count field replaced by other values / non-minimal / 2^64-1 encodings, empty, per-command maximum size), or random bytes; header mutations (magic, checksum, length shorter / longer / huge); delivery with fragmentation 1 byte .. whole message, pauses around the 10 ms read deadline, resets inside a message; all interleavings of readers, writers, the main-loop stub and other peers chosen by the scheduler. Oracles: Run() never returns without having closed its connection (escaped panic), the connection goroutine holds no lock whenever it re-enters Read() or ends, no message costs more than 2e6 scheduler steps, no deadlock / os.Exit / fatal error, connection goroutines end within 10 simulated s after hang-up, the main loop keeps ticking and a fresh well-behaved peer gets its pong within 5 simulated s.",
		Components: map[string][]string{
			"real":      append([]string{"client/network (instrumented: all handlers, FetchMessage, writing thread)", "client/peersdb on lib/others/qdb (instrumented)", "client/txpool, client/common (instrumented)"}, chainComponents["real"]...),
			"simulated": append([]string{"transport (sim/simnet net.Conn: fragmentation, delays vs read deadline, resets, write errors)", "peers (message generators)"}, commonSim...),
			"restated":  {"client/main.go main loop: only the select over network.NetBlocks / network.NetTxs / a tick is the harness's; blocks go to the client's own HandleNetBlock (-> LocalAcceptBlock -> CommitBlock, retry_cached_blocks) compiled from client/main.go as client/mainlib, transactions to txpool.HandleNetTx", "tcp_server: NewConnection + OpenCons registration for an incoming peer"},
		},
		Assumptions: []string{
			"library parsers are exercised only as reached through these handlers; direct fuzzing of address / key / signature parsers is input generation (not claimed)",
			"misbehaviour scoring and banning are not in the oracle",
			"messages are <= 400 kB in the quick tier",
		},
		ExpectProbes: []string{"fresh_peer_served", "msg_valid", "msg_mutate", "msg_trunc", "msg_count", "msg_max", "msg_random"},
	}
}
