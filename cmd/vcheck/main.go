// vcheck: driver of the gocoin deterministic simulation checks.
//
//	vcheck run <PROP> [--tier quick|thorough] [--seed N] [--runs N] [--budget S] [--workers N] [--keep] [--norace]
//	vcheck replay <file>
//	vcheck determinism <PROP> [--runs N]
//	vcheck instrument <dir>            (scratch copy + instrumentation only; prints the path)
//
// Exit codes: 0 held (possibly KNOWN-FINDING lines), 1 violation(s), 2 infrastructure trouble.
package main

import (
	"bufio"
	"bytes"
	"encoding/json"
	"fmt"
	"os"
	"os/exec"
	"path/filepath"
	"sort"
	"strconv"
	"strings"
	"sync"
	"syscall"
	"time"
)

const goBin = "go1.26.8"

// repoDir is the tree under test. VCHECK_REPO points a run at a scratch worktree instead
// (sensitivity experiments only; the registered commands always use /repo).
var repoDir = "/repo"

var verifDir = "/verif"

type violation struct {
	Property string `json:"property"`
	Class    string `json:"class"`
	Msg      string `json:"msg"`
}

type outcome struct {
	Seed         uint64           `json:"seed"`
	Violations   []violation      `json:"violations,omitempty"`
	Faults       map[string]int64 `json:"faults,omitempty"`
	Probes       map[string]int64 `json:"probes,omitempty"`
	TraceHash    string           `json:"trace_hash"`
	StateHash    string           `json:"state_hash"`
	Steps        int              `json:"steps"`
	Switches     int              `json:"switches"`
	SimMs        int64            `json:"sim_ms"`
	Evals        int              `json:"evals"`
	Inconclusive string           `json:"inconclusive,omitempty"`
	Sample       json.RawMessage  `json:"sample,omitempty"`
	Dirty        bool             `json:"dirty,omitempty"`
	Porcupine    map[string]int64 `json:"porcupine,omitempty"`
}

type line struct {
	T        string   `json:"t"`
	Idx      int      `json:"idx"`
	Seed     uint64   `json:"seed"`
	Outcome  *outcome `json:"outcome,omitempty"`
	CaseFile string   `json:"case_file,omitempty"`
	Info     string   `json:"info,omitempty"`
}

type caseT struct {
	Harness string            `json:"harness"`
	Prop    string            `json:"prop"`
	Tier    string            `json:"tier"`
	Seed    uint64            `json:"seed"`
	Cfg     json.RawMessage   `json:"cfg"`
	Ops     []json.RawMessage `json:"ops"`
}

type replayFile struct {
	Property string          `json:"property"`
	Class    string          `json:"class"`
	Msg      string          `json:"msg"`
	Tier     string          `json:"tier"`
	FoundBy  string          `json:"found_by"`
	OpsFound int             `json:"ops_before_shrinking"`
	Shrink   map[string]int  `json:"shrink_stats,omitempty"`
	Case     caseT           `json:"case"`
	Listing  json.RawMessage `json:"listing,omitempty"`
}

type knownFinding struct {
	Property    string `json:"property"`
	ID          string `json:"id"`
	Class       string `json:"class"`        // exact violation class
	MsgContains string `json:"msg_contains"` // optional further restriction
	What        string `json:"what"`
	Fixed       bool   `json:"fixed,omitempty"`
	Commit      string `json:"commit,omitempty"`
	Replay      string `json:"replay,omitempty"`
}

func fatal2(format string, a ...any) {
	fmt.Fprintf(os.Stderr, "vcheck: "+format+"\n", a...)
	os.Exit(2)
}

func goEnv() []string {
	env := os.Environ()
	env = append(env, "GOFLAGS=-mod=mod", "GOPROXY=off", "GOSUMDB=off", "GOTOOLCHAIN=local")
	return env
}

// ---------------------------------------------------------------- scratch build

// sharedDir holds what the child processes of one invocation build once and share (long templates, collision kits).
var sharedDir = filepath.Join(os.TempDir(), "vcheck-shared")

type scratch struct {
	dir   string
	repo  string
	bins  map[string]string // "plain"/"race" -> path
	keep  bool
	instr int
}

func (s *scratch) cleanup() {
	if s.keep {
		fmt.Println("vcheck: keeping scratch", s.dir)
		return
	}
	os.RemoveAll(s.dir)
}

func run(dir string, env []string, name string, args ...string) (string, error) {
	cmd := exec.Command(name, args...)
	cmd.Dir = dir
	if env != nil {
		cmd.Env = env
	}
	var buf bytes.Buffer
	cmd.Stdout = &buf
	cmd.Stderr = &buf
	err := cmd.Run()
	return buf.String(), err
}

func ensureTools() {
	ov := filepath.Join(verifDir, "build/overlay/overlay.json")
	if _, err := os.Stat(ov); err != nil {
		if out, err := run(verifDir, nil, "sh", filepath.Join(verifDir, "scripts/mkoverlay.sh")); err != nil {
			fatal2("overlay generation failed: %s", out)
		}
	}
	vi := filepath.Join(verifDir, "bin/vinstr")
	if _, err := os.Stat(vi); err != nil {
		if out, err := run(verifDir, goEnv(), goBin, "build", "-o", vi, "./cmd/vinstr"); err != nil {
			fatal2("building vinstr failed: %s", out)
		}
	}
}

func newScratch(keep bool) *scratch {
	base := os.Getenv("TMPDIR")
	if base == "" {
		base = "/tmp"
	}
	d, err := os.MkdirTemp(base, "vcheck-")
	if err != nil {
		fatal2("mktemp: %v", err)
	}
	s := &scratch{dir: d, repo: filepath.Join(d, "repo"), bins: map[string]string{}, keep: keep}
	sharedDir = filepath.Join(d, "shared")
	// copy the working tree (not .git, not the web assets)
	if out, err := run("/", nil, "rsync", "-a", "--exclude=.git", "--exclude=/website", "--exclude=/client/www", repoDir+"/", s.repo+"/"); err != nil {
		s.cleanup()
		fatal2("copying %s failed: %s", repoDir, out)
	}
	if err := mkMainlib(s.repo); err != nil {
		s.cleanup()
		fatal2("generating client/mainlib failed: %v", err)
	}
	// a tuning knob simulated histories are too small to reach: the snapshot loader hands records to the goroutine
	// filling the maps in packs of 65536 through a ring of 6 buffers; with packs of 16 the ring wraps in a set of
	// a few hundred records (nothing else changes; left alone if the constant is not found as written)
	if src, err := os.ReadFile(filepath.Join(s.repo, "lib/utxo/unspent_db.go")); err == nil {
		const was, now = "const RECS_PACK_SIZE = 0x10000", "const RECS_PACK_SIZE = 16"
		if strings.Count(string(src), was) == 1 {
			os.WriteFile(filepath.Join(s.repo, "lib/utxo/unspent_db.go"), []byte(strings.Replace(string(src), was, now, 1)), 0644)
		}
	}
	var dirs []string
	for _, p := range instrPkgs {
		if st, err := os.Stat(filepath.Join(s.repo, p)); err == nil && st.IsDir() {
			dirs = append(dirs, filepath.Join(s.repo, p))
		}
	}
	args := append([]string{filepath.Join(verifDir, "sim/simos")}, dirs...)
	out, err := run(verifDir, nil, filepath.Join(verifDir, "bin/vinstr"), args...)
	if err != nil {
		s.cleanup()
		fatal2("instrumentation failed: %s", out)
	}
	mod := fmt.Sprintf("module verif\n\ngo 1.26.8\n\nrequire (\n\tgithub.com/anishathalye/porcupine v1.3.0\n\tgithub.com/piotrnar/gocoin v0.0.0\n\tgolang.org/x/tools v0.50.0\n)\n\nreplace github.com/piotrnar/gocoin => %s\n", s.repo)
	os.WriteFile(filepath.Join(d, "harness.mod"), []byte(mod), 0644)
	sum, _ := os.ReadFile(filepath.Join(verifDir, "go.sum"))
	if rs, err := os.ReadFile(filepath.Join(repoDir, "go.sum")); err == nil {
		sum = append(sum, rs...)
	}
	os.WriteFile(filepath.Join(d, "harness.sum"), sum, 0644)
	return s
}

// mkMainlib makes the client's package main importable in the scratch copy: client/{main,init,logfile}.go are
// copied to client/mainlib with the package clause changed (func main -> func Main), plus a file that exports
// the unexported entry points the harnesses drive (start-up replay of stored blocks, cached-block retry) and a
// reset of the package-level state.  The code itself is unchanged and instrumented like the other packages.
func mkMainlib(repo string) error {
	src := filepath.Join(repo, "client")
	dst := filepath.Join(src, "mainlib")
	if err := os.MkdirAll(dst, 0755); err != nil {
		return err
	}
	for _, f := range []string{"main.go", "init.go", "logfile.go"} {
		b, err := os.ReadFile(filepath.Join(src, f))
		if err != nil {
			return err
		}
		t := string(b)
		if !strings.Contains(t, "\npackage main\n") && !strings.HasPrefix(t, "package main\n") {
			return fmt.Errorf("%s: no 'package main' clause", f)
		}
		t = strings.Replace(t, "package main\n", "package mainlib\n", 1)
		if f == "main.go" {
			if !strings.Contains(t, "\nfunc main() {") {
				return fmt.Errorf("main.go: func main not found")
			}
			t = strings.Replace(t, "\nfunc main() {", "\nfunc Main() {", 1)
		}
		if err := os.WriteFile(filepath.Join(dst, f), []byte(t), 0644); err != nil {
			return err
		}
	}
	exp := `package mainlib

import (
	"time"

	"github.com/piotrnar/gocoin/lib/btc"
	"github.com/piotrnar/gocoin/lib/chain"
	"github.com/piotrnar/gocoin/lib/others/sys"
)

// generated by vcheck (verification harness): exported handles on the client's own, unchanged functions

func DoTheBlocks(end *chain.BlockTreeNode) { do_the_blocks(end) }
func RetryCachedBlocks() bool               { return retry_cached_blocks() }
func HostInit()                             { host_init() }
func BlockMinedCB(bl *btc.Block)            { blockMined(bl) }
func BlockUndoneCB(bl *btc.Block)           { blockUndone(bl) }
func RetryFlag() bool                       { return retryCachedBlocks }

// MainLoopRetry is the head of the client's main loop: "if retryCachedBlocks { retryCachedBlocks = retry_cached_blocks() ... }"
func MainLoopRetry() {
	if retryCachedBlocks {
		retryCachedBlocks = retry_cached_blocks()
	}
}

// ResetForSim gives the package-level state the values a new process starts with (timers are re-made so that
// they belong to the current simulation bubble).
func ResetForSim() {
	SaveBlockChain = time.NewTimer(1<<63 - 1)
	NetBlocksSize = sys.SyncInt{}
	highestAcceptedBlock, retryCachedBlocks, syncDoneAnnounced = 0, false, false
	lastDefragDone, lastMapDefragDone = time.Time{}, time.Time{}
}
`
	if err := os.WriteFile(filepath.Join(dst, "zz_verif_export.go"), []byte(exp), 0644); err != nil {
		return err
	}
	// client/network registers a connection in two maps through an unexported method (the listener / dialer code
	// that calls it needs real sockets): export it for the harness that plays that part
	netexp := `package network

// generated by vcheck (scratch copy only)

func (c *OneConnection) VerifAddToList()   { c.addToList() }
func (c *OneConnection) VerifDelFromList() { c.delFromList() }
`
	if err := os.WriteFile(filepath.Join(src, "network", "zz_verif_export.go"), []byte(netexp), 0644); err != nil {
		return err
	}
	// client/wallet: a process that starts has no balance maps at all (LoadBalances tells a file it could not read
	// by that); the harness restarts the index within one process
	walexp := `package wallet

// generated by vcheck (scratch copy only)

func VerifFreshProcess() {
	for i := range allBalances {
		allBalances[i] = nil
	}
	LAST_SAVED_FNAME = ""
}
`
	return os.WriteFile(filepath.Join(src, "wallet", "zz_verif_export.go"), []byte(walexp), 0644)
}

func (s *scratch) build(harness string, race bool) string {
	key := "plain"
	if race {
		key = "race"
	}
	if p, ok := s.bins[harness+"."+key]; ok {
		return p
	}
	out := filepath.Join(s.dir, harness+"."+key+".test")
	args := []string{"test", "-c", "-trimpath", "-vet=off",
		"-overlay", filepath.Join(verifDir, "build/overlay/overlay.json"),
		"-modfile", filepath.Join(s.dir, "harness.mod"), "-o", out}
	if race {
		args = append(args, "-race")
	}
	args = append(args, "./harness/"+harness)
	t0 := time.Now()
	o, err := run(verifDir, goEnv(), goBin, args...)
	if err != nil {
		s.cleanup()
		fatal2("building harness %s (%s) failed:\n%s", harness, key, o)
	}
	fmt.Printf("vcheck: built %s (%s) in %.1fs\n", harness, key, time.Since(t0).Seconds())
	s.bins[harness+"."+key] = out
	return out
}

// ---------------------------------------------------------------- children

type childResult struct {
	lines    []line
	exit     int
	signaled bool
	timedOut bool
	stderr   string
}

func readLines(path string) []line {
	f, err := os.Open(path)
	if err != nil {
		return nil
	}
	defer f.Close()
	var ls []line
	sc := bufio.NewScanner(f)
	sc.Buffer(make([]byte, 1<<20), 1<<28)
	for sc.Scan() {
		var l line
		if json.Unmarshal(sc.Bytes(), &l) == nil && l.T != "" {
			ls = append(ls, l)
		}
	}
	return ls
}

var childSerial struct {
	sync.Mutex
	n int
}

func runChild(bin, wdir string, env []string, limit time.Duration, gomaxprocs int) childResult {
	childSerial.Lock()
	childSerial.n++
	n := childSerial.n
	childSerial.Unlock()
	outp := filepath.Join(wdir, fmt.Sprintf("out-%d.jsonl", n))
	cmd := exec.Command(bin, "-test.run", "^TestSim$", "-test.timeout", "0", "-test.count", "1")
	cmd.Dir = wdir
	cmd.Env = append(os.Environ(), env...)
	cmd.Env = append(cmd.Env, "VSIM_OUT="+outp, "VSIM_DIR="+wdir, "VSIM_SHARED="+sharedDir, "GORACE=halt_on_error=1 exitcode=66",
		fmt.Sprintf("GOMAXPROCS=%d", gomaxprocs), "GOTRACEBACK=single")
	var errb bytes.Buffer
	cmd.Stdout = nil
	cmd.Stderr = &errb
	cmd.SysProcAttr = &syscall.SysProcAttr{Setpgid: true}
	var res childResult
	if err := cmd.Start(); err != nil {
		res.exit = 2
		res.stderr = err.Error()
		return res
	}
	done := make(chan error, 1)
	go func() { done <- cmd.Wait() }()
	select {
	case err := <-done:
		if err != nil {
			if ee, ok := err.(*exec.ExitError); ok {
				res.exit = ee.ExitCode()
				if ws, ok := ee.Sys().(syscall.WaitStatus); ok && ws.Signaled() {
					res.signaled = true
				}
			} else {
				res.exit = 2
			}
		}
	case <-time.After(limit):
		syscall.Kill(-cmd.Process.Pid, syscall.SIGKILL)
		<-done
		res.timedOut = true
		res.exit = -1
	}
	res.lines = readLines(outp)
	os.Remove(outp)
	s := errb.String()
	if len(s) > 6000 {
		s = s[:1500] + "\n...\n" + s[len(s)-4500:]
	}
	res.stderr = s
	return res
}

// ---------------------------------------------------------------- batch

type found struct {
	v        violation
	caseFile string
	caseData []byte
	idx      int
	seed     uint64
	race     bool
	harness  string
}

type batch struct {
	spec     *propSpec
	harness  string
	chunk    int
	tier     string
	base     uint64
	bin      string
	race     bool
	sc       *scratch
	runs     int
	deadline time.Time
	workers  int
	perRun   time.Duration

	mu        sync.Mutex
	next      int
	outcomes  []*outcome
	founds    []found
	infra     []string
	stopEarly bool
}

func (b *batch) takeChunk(n int) (int, int, bool) {
	b.mu.Lock()
	defer b.mu.Unlock()
	if b.next >= b.runs || time.Now().After(b.deadline) || b.stopEarly {
		return 0, 0, false
	}
	from := b.next
	to := from + n
	if to > b.runs {
		to = b.runs
	}
	b.next = to
	return from, to, true
}

func (b *batch) addOutcome(l line) {
	b.mu.Lock()
	defer b.mu.Unlock()
	o := l.Outcome
	b.outcomes = append(b.outcomes, o)
	if len(o.Violations) > 0 {
		var data []byte
		if l.CaseFile != "" {
			data, _ = os.ReadFile(l.CaseFile)
		}
		for _, v := range o.Violations {
			b.founds = append(b.founds, found{v: v, caseFile: l.CaseFile, caseData: data, idx: l.Idx, seed: l.Seed, race: b.race, harness: b.harness})
		}
	}
}

func (b *batch) worker(w int) {
	wdir := filepath.Join(b.sc.dir, fmt.Sprintf("w%d%s", w, map[bool]string{false: "", true: "r"}[b.race]))
	os.MkdirAll(wdir, 0770)
	for {
		from, to, ok := b.takeChunk(b.chunk)
		if !ok {
			return
		}
		for from < to {
			env := []string{"VSIM_MODE=batch", "VSIM_PROP=" + b.spec.ID, "VSIM_TIER=" + b.tier,
				"VSIM_BASE=" + strconv.FormatUint(b.base, 10),
				"VSIM_FROM=" + strconv.Itoa(from), "VSIM_TO=" + strconv.Itoa(to),
				"VSIM_DEADLINE=" + strconv.FormatInt(b.deadline.Unix(), 10)}
			limit := b.perRun*time.Duration(to-from) + 30*time.Second
			res := runChild(b.bin, wdir, env, limit, 4)
			lastStart := -1
			doneIdx := -1
			ended := false
			for _, l := range res.lines {
				switch l.T {
				case "start":
					lastStart = l.Idx
				case "done":
					doneIdx = l.Idx
					b.addOutcome(l)
				case "end", "stop":
					ended = true
				}
			}
			if ended && res.exit == 0 {
				break
			}
			if res.exit == 3 && doneIdx >= 0 {
				// dirty exit after reporting idx: continue behind it
				from = doneIdx + 1
				continue
			}
			// abnormal: crash, race report, watchdog
			if lastStart < 0 {
				b.mu.Lock()
				b.infra = append(b.infra, fmt.Sprintf("child produced nothing (exit %d, timeout %v): %s", res.exit, res.timedOut, res.stderr))
				b.stopEarly = true
				b.mu.Unlock()
				return
			}
			if lastStart == doneIdx {
				// died between runs
				from = doneIdx + 1
				continue
			}
			b.abnormal(wdir, lastStart, res)
			from = lastStart + 1
		}
	}
}

// abnormal handles a child that died or hung while running index idx: the
// index is re-run alone; only a reproducible abnormal end counts.
func (b *batch) abnormal(wdir string, idx int, first childResult) {
	env := []string{"VSIM_MODE=batch", "VSIM_PROP=" + b.spec.ID, "VSIM_TIER=" + b.tier,
		"VSIM_BASE=" + strconv.FormatUint(b.base, 10),
		"VSIM_FROM=" + strconv.Itoa(idx), "VSIM_TO=" + strconv.Itoa(idx+1), "VSIM_DEADLINE=0"}
	res := runChild(b.bin, wdir, env, b.perRun+30*time.Second, 4)
	for _, l := range res.lines {
		if l.T == "done" {
			// did not reproduce the abnormal end
			b.addOutcome(l)
			if first.exit == 66 {
				b.mu.Lock()
				b.infra = append(b.infra, fmt.Sprintf("race report at idx %d did not reproduce on re-run:\n%s", idx, first.stderr))
				b.mu.Unlock()
			} else {
				b.mu.Lock()
				b.infra = append(b.infra, fmt.Sprintf("abnormal child end at idx %d (exit %d timeout %v) did not reproduce: %s", idx, first.exit, first.timedOut, first.stderr))
				b.mu.Unlock()
			}
			return
		}
	}
	seed := uint64(0)
	for _, l := range res.lines {
		if l.T == "start" {
			seed = l.Seed
		}
	}
	var v violation
	v.Property = b.spec.ID
	switch {
	case res.exit == 66 || strings.Contains(res.stderr, "WARNING: DATA RACE"):
		v.Class = "race." + raceSignature(res.stderr)
		v.Msg = "data race reported by the Go race detector under the deterministic schedule:\n" + res.stderr
	case res.timedOut:
		if !b.spec.HangIsViolation {
			b.mu.Lock()
			b.infra = append(b.infra, fmt.Sprintf("idx %d (seed %d) exceeds the wall-clock watchdog twice", idx, seed))
			b.mu.Unlock()
			return
		}
		v.Class = "child.hang"
		v.Msg = fmt.Sprintf("run does not finish within %v wall-clock (twice): unbounded loop without a scheduling point", b.perRun+30*time.Second)
	default:
		v.Class = "child.fatal." + fatalSignature(res.stderr)
		v.Msg = fmt.Sprintf("process died (exit %d, signaled %v) outside any recoverable panic:\n%s", res.exit, res.signaled, res.stderr)
	}
	// regenerate the case for the replay file
	genEnv := []string{"VSIM_MODE=gen", "VSIM_PROP=" + b.spec.ID, "VSIM_TIER=" + b.tier,
		"VSIM_BASE=" + strconv.FormatUint(b.base, 10), "VSIM_FROM=" + strconv.Itoa(idx)}
	data := genCase(b.bin, wdir, genEnv)
	b.mu.Lock()
	b.founds = append(b.founds, found{v: v, caseData: data, idx: idx, seed: seed, race: b.race, harness: b.harness})
	b.mu.Unlock()
}

func genCase(bin, wdir string, env []string) []byte {
	cmd := exec.Command(bin, "-test.run", "^TestSim$", "-test.count", "1")
	cmd.Dir = wdir
	cmd.Env = append(os.Environ(), env...)
	out, err := cmd.Output()
	if err != nil {
		return nil
	}
	i := bytes.IndexByte(out, '{')
	j := bytes.LastIndexByte(out, '}')
	if i < 0 || j < i {
		return nil
	}
	var c caseT
	if json.Unmarshal(out[i:j+1], &c) != nil {
		return nil
	}
	b, _ := json.Marshal(c)
	return b
}

func raceSignature(s string) string {
	// the package of the first gocoin frame: one class per package keeps
	// replay matching and shrinking stable (the report itself is in the message)
	for _, l := range strings.Split(s, "\n") {
		l = strings.TrimSpace(l)
		if strings.HasPrefix(l, "github.com/piotrnar/gocoin/") && strings.Contains(l, "(") {
			f := l[len("github.com/piotrnar/gocoin/"):]
			if i := strings.Index(f, "."); i > 0 {
				return f[:i]
			}
			return f
		}
	}
	return "harness"
}

func fatalSignature(s string) string {
	for _, l := range strings.Split(s, "\n") {
		if strings.HasPrefix(l, "fatal error:") || strings.HasPrefix(l, "panic:") || strings.HasPrefix(l, "unexpected fault") || strings.HasPrefix(l, "SIG") {
			if i := strings.Index(l, "0x"); i > 0 {
				l = l[:i]
			}
			if i := strings.Index(l, " ["); i > 0 {
				l = l[:i]
			}
			l = strings.TrimSpace(l)
			l = strings.Map(func(r rune) rune {
				if r == ' ' || r == ':' {
					return '_'
				}
				if r >= '0' && r <= '9' {
					return -1
				}
				return r
			}, l)
			if len(l) > 60 {
				l = l[:60]
			}
			return l
		}
	}
	return "unknown"
}

func (b *batch) runAll() {
	var wg sync.WaitGroup
	for w := 0; w < b.workers; w++ {
		wg.Add(1)
		go func(w int) { defer wg.Done(); b.worker(w) }(w)
	}
	wg.Wait()
}

// ---------------------------------------------------------------- shrinking

func sameClass(o *outcome, v violation) bool {
	for _, x := range o.Violations {
		if x.Property == v.Property && x.Class == v.Class {
			return true
		}
	}
	return false
}

type shrinker struct {
	known    []knownFinding // listed findings: when the target is NOT one of them, neither may a candidate's match be
	knownID  string         // "" or the id of the finding the target matches
	bin      string
	wdir     string
	perRun   time.Duration
	target   violation
	attempts int
	maxAtt   int
	deadline time.Time
	hangOK   bool
	lastMsg  string
}

// test runs case c in a fresh child and reports whether the target class shows.
func (s *shrinker) test(c *caseT) (bool, *outcome) {
	s.attempts++
	fn := filepath.Join(s.wdir, fmt.Sprintf("shrink-%d.json", s.attempts))
	data, _ := json.Marshal(c)
	os.WriteFile(fn, data, 0644)
	defer os.Remove(fn)
	res := runChild(s.bin, s.wdir, []string{"VSIM_MODE=replay", "VSIM_CASE=" + fn, "VSIM_PROP=" + c.Prop, "VSIM_TIER=" + c.Tier}, s.perRun+30*time.Second, 4)
	for _, l := range res.lines {
		if l.T == "done" && l.Outcome != nil {
			for _, x := range l.Outcome.Violations {
				if x.Property != s.target.Property || x.Class != s.target.Class {
					continue
				}
				id := ""
				if k := matchKnown(s.known, x); k != nil {
					id = k.ID
				}
				if s.known == nil || id == s.knownID {
					return true, l.Outcome
				}
			}
			return false, l.Outcome
		}
	}
	// abnormal end: matches only abnormal targets of the same kind
	switch {
	case strings.HasPrefix(s.target.Class, "race."):
		return res.exit == 66 && "race."+raceSignature(res.stderr) == s.target.Class, nil
	case s.target.Class == "child.hang":
		return res.timedOut, nil
	case strings.HasPrefix(s.target.Class, "child.fatal."):
		return !res.timedOut && res.exit != 0 && res.exit != 3 && "child.fatal."+fatalSignature(res.stderr) == s.target.Class, nil
	}
	return false, nil
}

// note remembers the message of the target class as reported by the latest (smaller) case.
func (s *shrinker) note(o *outcome) {
	if o == nil {
		return
	}
	for _, x := range o.Violations {
		if x.Property == s.target.Property && x.Class == s.target.Class {
			s.lastMsg = x.Msg
			return
		}
	}
}

func (s *shrinker) exhausted() bool {
	return s.attempts >= s.maxAtt || time.Now().After(s.deadline)
}

func (s *shrinker) shrink(c caseT) (caseT, map[string]int) {
	stats := map[string]int{"ops_before": len(c.Ops)}
	// 1. ddmin over the operation list
	n := 2
	for len(c.Ops) >= 2 && !s.exhausted() {
		chunk := (len(c.Ops) + n - 1) / n
		reduced := false
		for i := 0; i < len(c.Ops) && !s.exhausted(); i += chunk {
			j := i + chunk
			if j > len(c.Ops) {
				j = len(c.Ops)
			}
			cand := c
			cand.Ops = append(append([]json.RawMessage{}, c.Ops[:i]...), c.Ops[j:]...)
			if ok, oc := s.test(&cand); ok {
				c = cand
				s.note(oc)
				if n > 2 {
					n--
				}
				reduced = true
				break
			}
		}
		if !reduced {
			if chunk == 1 {
				break
			}
			n *= 2
			if n > len(c.Ops) {
				n = len(c.Ops)
			}
		}
	}
	// 2. quieter schedule: zero the yield / timer probabilities if the class persists
	var cfg map[string]json.RawMessage
	if json.Unmarshal(c.Cfg, &cfg) == nil {
		for _, k := range []string{"yield_p", "timer_p"} {
			if v, ok := cfg[k]; ok && !s.exhausted() {
				if string(v) != "0" {
					cfg[k] = json.RawMessage("0")
					nb, _ := json.Marshal(cfg)
					cand := c
					cand.Cfg = nb
					if ok, oc := s.test(&cand); ok {
						c = cand
						s.note(oc)
						stats["zeroed_"+k] = 1
					} else {
						cfg[k] = v
					}
				}
			}
		}
	}
	stats["ops_after"] = len(c.Ops)
	stats["attempts"] = s.attempts
	return c, stats
}

// ---------------------------------------------------------------- known findings

func loadKnown() []knownFinding {
	b, err := os.ReadFile(filepath.Join(verifDir, "known_findings.json"))
	if err != nil {
		return nil
	}
	var k struct {
		Findings []knownFinding `json:"findings"`
	}
	if err := json.Unmarshal(b, &k); err != nil {
		fatal2("known_findings.json does not parse: %v", err)
	}
	return k.Findings
}

func matchKnown(ks []knownFinding, v violation) *knownFinding {
	for i := range ks {
		k := &ks[i]
		if k.Fixed || k.Property != v.Property || k.Class != v.Class {
			continue
		}
		if k.MsgContains != "" && !strings.Contains(v.Msg, k.MsgContains) {
			continue
		}
		return k
	}
	return nil
}

// ---------------------------------------------------------------- run command

type options struct {
	tier    string
	seed    uint64
	runs    int
	budget  int
	workers int
	keep    bool
	norace  bool
}

func parseOpts(args []string) (pos []string, o options) {
	o.tier = os.Getenv("VERIF_TIER")
	if s := os.Getenv("VERIF_SEED"); s != "" {
		if v, err := strconv.ParseUint(s, 10, 64); err == nil {
			o.seed = v
		} else if v, err := strconv.ParseInt(s, 10, 64); err == nil {
			o.seed = uint64(v)
		}
	}
	if s := os.Getenv("VERIF_BUDGET_S"); s != "" {
		o.budget, _ = strconv.Atoi(s)
	}
	for i := 0; i < len(args); i++ {
		a := args[i]
		nextv := func() string {
			i++
			if i >= len(args) {
				fatal2("missing value for %s", a)
			}
			return args[i]
		}
		switch a {
		case "--tier":
			o.tier = nextv()
		case "--seed":
			v, err := strconv.ParseUint(nextv(), 10, 64)
			if err != nil {
				fatal2("bad --seed")
			}
			o.seed = v
		case "--runs":
			o.runs, _ = strconv.Atoi(nextv())
		case "--budget":
			o.budget, _ = strconv.Atoi(nextv())
		case "--workers":
			o.workers, _ = strconv.Atoi(nextv())
		case "--keep":
			o.keep = true
		case "--norace":
			o.norace = true
		default:
			pos = append(pos, a)
		}
	}
	if o.tier == "" {
		o.tier = "quick"
	}
	if o.tier != "quick" && o.tier != "thorough" {
		fatal2("tier must be quick or thorough")
	}
	if o.seed == 0 {
		o.seed = 1
	}
	return
}

func cmdRun(args []string) int {
	pos, o := parseOpts(args)
	if len(pos) != 1 {
		fatal2("usage: vcheck run <PROP> [options]")
	}
	spec := specs[pos[0]]
	if spec == nil {
		fatal2("no check for property %s", pos[0])
	}
	t0 := time.Now()
	ensureTools()
	tp := spec.Quick
	if o.tier == "thorough" {
		tp = spec.Thorough
	}
	if o.runs > 0 {
		tp.Runs = o.runs
	}
	if o.budget > 0 {
		tp.BudgetS = o.budget
	}
	workers := spec.Workers
	if o.workers > 0 {
		workers = o.workers
	}
	if workers == 0 {
		workers = 16
	}
	sc := newScratch(o.keep)
	defer sc.cleanup()
	plain := sc.build(spec.Harness, false)
	known := loadKnown()

	var all []*outcome
	var founds []found
	var infra []string
	type armT struct {
		harness           string
		race              bool
		runs, budgetS     int
		chunk             int
		seedOffset        uint64
	}
	arms := []armT{{spec.Harness, false, tp.Runs, tp.BudgetS, spec.Chunk, 0}}
	if tp.RaceRuns > 0 && !o.norace {
		arms = append(arms, armT{spec.Harness, true, tp.RaceRuns, tp.RaceBudgetS, spec.Chunk, 0})
	}
	for _, al := range spec.Also {
		runs, bud := al.QuickRuns, al.QuickBudgetS
		if o.tier == "thorough" {
			runs, bud = al.ThoroughRuns, al.ThoroughBudgetS
		}
		if o.runs > 0 {
			runs = o.runs / 2
		}
		arms = append(arms, armT{al.Harness, false, runs, bud, al.Chunk, 0x5EED})
		if al.RaceRuns > 0 && !o.norace {
			arms = append(arms, armT{al.Harness, true, al.RaceRuns, al.RaceBudgetS, al.Chunk, 0x5EED})
		}
	}
	var raceOutcomes int
	for _, arm := range arms {
		if arm.runs <= 0 {
			continue
		}
		b := &batch{spec: spec, harness: arm.harness, chunk: arm.chunk, tier: o.tier, base: o.seed + arm.seedOffset, sc: sc, workers: workers,
			perRun: time.Duration(tp.PerRunS) * time.Second}
		b.bin, b.race, b.runs = sc.build(arm.harness, arm.race), arm.race, arm.runs
		b.deadline = time.Now().Add(time.Duration(arm.budgetS) * time.Second)
		if arm.race {
			b.perRun *= 8
		}
		b.runAll()
		all = append(all, b.outcomes...)
		if arm.race {
			raceOutcomes += len(b.outcomes)
		}
		founds = append(founds, b.founds...)
		infra = append(infra, b.infra...)
	}

	// classify
	type cls struct {
		first found
		count int
		known *knownFinding
	}
	classes := map[string]*cls{}
	var order []string
	sort.SliceStable(founds, func(i, j int) bool { return founds[i].idx < founds[j].idx })
	for _, f := range founds {
		// every violation is matched against the known findings on its own: a listed finding must not hide another
		// violation that merely falls into the same class
		k := matchKnown(known, f.v)
		key := f.v.Property + "/" + f.v.Class
		if k != nil {
			key += " [known:" + k.ID + "]"
		}
		c := classes[key]
		if c == nil {
			c = &cls{first: f, known: k}
			classes[key] = c
			order = append(order, key)
		}
		c.count++
	}
	exit := 0
	knownSeen := map[string]bool{}
	var vioLines, knownLines []string
	nviol := 0
	os.MkdirAll(filepath.Join(verifDir, "replays", spec.ID), 0775)
	for _, key := range order {
		c := classes[key]
		if c.known != nil {
			knownLines = append(knownLines, fmt.Sprintf("KNOWN-FINDING: property=%s %s: %s (seen %d times, first seed %d)", c.first.v.Property, c.known.ID, c.known.What, c.count, c.first.seed))
			knownSeen[c.known.ID] = true
			if os.Getenv("VCHECK_SAVE_KNOWN") != "" && c.first.caseData != nil {
				// maintenance aid: (re)create the minimised replay file of a listed finding
				var cs caseT
				if json.Unmarshal(c.first.caseData, &cs) == nil {
					sh := &shrinker{bin: plain, wdir: sc.dir, perRun: time.Duration(tp.PerRunS) * time.Second, target: c.first.v,
						maxAtt: tp.ShrinkAttempts, deadline: time.Now().Add(time.Duration(tp.ShrinkS) * time.Second), known: known, knownID: c.known.ID}
					if ok, _ := sh.test(&cs); ok {
						cs2, st := sh.shrink(cs)
						rf := replayFile{Property: c.first.v.Property, Class: c.first.v.Class, Msg: c.first.v.Msg, Tier: o.tier, Case: cs2, Shrink: st, OpsFound: len(cs.Ops),
							FoundBy: fmt.Sprintf("vcheck run %s --tier %s --seed %d (index %d)", spec.ID, o.tier, o.seed, c.first.idx)}
						if sh.lastMsg != "" {
							rf.Msg = sh.lastMsg
						}
						data, _ := json.MarshalIndent(rf, "", " ")
						os.MkdirAll(filepath.Join(verifDir, "known_replays"), 0775)
						os.WriteFile(filepath.Join(verifDir, "known_replays", spec.ID+"-"+c.known.ID+".json"), data, 0644)
					}
				}
			}
			continue
		}
		nviol += c.count
		exit = 1
		rf := replayFile{Property: c.first.v.Property, Class: c.first.v.Class, Msg: c.first.v.Msg, Tier: o.tier,
			FoundBy: fmt.Sprintf("vcheck run %s --tier %s --seed %d (index %d, race=%v)", spec.ID, o.tier, o.seed, c.first.idx, c.first.race)}
		if c.first.caseData != nil {
			var cs caseT
			if json.Unmarshal(c.first.caseData, &cs) == nil {
				rf.OpsFound = len(cs.Ops)
				bin := sc.build(c.first.harness, c.first.race)
				sh := &shrinker{bin: bin, wdir: sc.dir, perRun: time.Duration(tp.PerRunS) * time.Second, target: c.first.v,
					maxAtt: tp.ShrinkAttempts, deadline: time.Now().Add(time.Duration(tp.ShrinkS) * time.Second), known: known}
				if c.first.race {
					sh.perRun *= 8
				}
				// confirm first: replay in a fresh process must reproduce the class
				ok, _ := sh.test(&cs)
				if !ok {
					infra = append(infra, fmt.Sprintf("violation %s (seed %d) did not reproduce on replay in a fresh process: %s", key, c.first.seed, c.first.v.Msg))
					rf.Case = cs
				} else {
					cs2, st := sh.shrink(cs)
					rf.Case, rf.Shrink = cs2, st
					if sh.lastMsg != "" {
						rf.Msg = sh.lastMsg
					}
				}
			}
		}
		safe := strings.Map(func(r rune) rune {
			if r >= 'a' && r <= 'z' || r >= 'A' && r <= 'Z' || r >= '0' && r <= '9' || r == '.' || r == '-' || r == '_' {
				return r
			}
			return '_'
		}, c.first.v.Class)
		if len(safe) > 80 {
			safe = safe[:80]
		}
		path := filepath.Join(verifDir, "replays", spec.ID, fmt.Sprintf("%d-%s.json", c.first.seed, safe))
		data, _ := json.MarshalIndent(rf, "", " ")
		os.WriteFile(path, data, 0644)
		vioLines = append(vioLines, fmt.Sprintf("VIOLATION property=%s replay=%s", c.first.v.Property, path))
		fmt.Printf("violation class %s (%d runs), first at seed %d:\n  %s\n", c.first.v.Class, c.count, c.first.seed, strings.ReplaceAll(firstN(c.first.v.Msg, 1200), "\n", "\n  "))
	}

	// every listed open finding of this property is re-demonstrated from its committed replay file
	for i := range known {
		k := &known[i]
		if k.Fixed || k.Property != spec.ID || knownSeen[k.ID] || k.Replay == "" {
			continue
		}
		data, err := os.ReadFile(filepath.Join(verifDir, k.Replay))
		if err != nil {
			infra = append(infra, "known finding "+k.ID+": cannot read its replay file: "+err.Error())
			continue
		}
		var rf replayFile
		if json.Unmarshal(data, &rf) != nil || rf.Case.Harness == "" {
			infra = append(infra, "known finding "+k.ID+": replay file does not parse")
			continue
		}
		sh := &shrinker{bin: plain, wdir: sc.dir, perRun: time.Duration(tp.PerRunS) * time.Second, target: violation{k.Property, k.Class, ""}, maxAtt: 1}
		if ok, _ := sh.test(&rf.Case); ok {
			knownLines = append(knownLines, fmt.Sprintf("KNOWN-FINDING: property=%s %s: %s (re-demonstrated from %s)", k.Property, k.ID, k.What, k.Replay))
		} else {
			fmt.Printf("vcheck: note: listed finding %s no longer reproduces from %s on this tree\n", k.ID, k.Replay)
		}
	}

	wall := time.Since(t0).Seconds()
	ev := buildEvidence(spec, o, tp, all, raceOutcomes, nviol, knownLines, infra, wall, len(order))
	if len(all) == 0 {
		infra = append(infra, "no run completed")
	}
	evPath := filepath.Join(verifDir, "evidence", spec.ID+".json")
	if repoDir != "/repo" {
		// a sensitivity experiment on a scratch tree never overwrites the evidence of /repo
		evPath = filepath.Join(os.TempDir(), "vcheck-evidence-"+spec.ID+".json")
	}
	os.MkdirAll(filepath.Dir(evPath), 0775)
	data, _ := json.MarshalIndent(ev, "", " ")
	os.WriteFile(evPath, data, 0644)

	for _, l := range knownLines {
		fmt.Println(l)
	}
	for _, l := range vioLines {
		fmt.Println(l)
	}
	fmt.Printf("vcheck: %s %s seed=%d: %d runs, %d evaluations, %d violation(s), %d known finding class(es), wall %.1fs\n",
		spec.ID, o.tier, o.seed, len(all), ev.Coverage["evaluations"], nviol, len(knownLines), wall)
	if len(infra) > 0 {
		for _, s := range infra {
			fmt.Fprintln(os.Stderr, "vcheck: INFRA:", firstN(s, 3000))
		}
		if exit == 0 {
			exit = 2
		}
	}
	return exit
}

func firstN(s string, n int) string {
	if len(s) > n {
		return s[:n] + "..."
	}
	return s
}

type evidence struct {
	PropertyID  string         `json:"property_id"`
	Tier        string         `json:"tier"`
	Seed        int64          `json:"seed"`
	Level       string         `json:"level"`
	Coverage    map[string]any `json:"coverage"`
	Assumptions []string       `json:"assumptions"`
	WallS       float64        `json:"wall_s"`
	Violations  int            `json:"violations"`
}

func buildEvidence(spec *propSpec, o options, tp tierParams, all []*outcome, raceRuns, nviol int, known, infra []string, wall float64, classes int) *evidence {
	evals := 0
	faults := map[string]int64{}
	probes := map[string]int64{}
	porc := map[string]int64{}
	distinct := map[string]bool{}
	var simMs int64
	inconcl := 0
	steps, switches := 0, 0
	var samples []any
	for _, oc := range all {
		evals += oc.Evals
		simMs += oc.SimMs
		steps += oc.Steps
		switches += oc.Switches
		nf := int64(0)
		for k, v := range oc.Faults {
			faults[k] += v
			nf += v
		}
		for k, v := range oc.Probes {
			probes[k] += v
		}
		for k, v := range oc.Porcupine {
			porc[k] += v
		}
		if oc.Inconclusive != "" {
			inconcl++
		}
		if oc.Switches >= 2 || nf >= 1 {
			distinct[oc.TraceHash+"/"+oc.StateHash] = true
		}
		if len(samples) < 3 && len(oc.Sample) > 0 {
			var s any
			json.Unmarshal(oc.Sample, &s)
			samples = append(samples, s)
		}
	}
	if len(samples) == 0 {
		samples = append(samples, "no sample recorded")
	}
	var zero []string
	for _, p := range spec.ExpectProbes {
		if probes[p] == 0 {
			zero = append(zero, p)
		}
	}
	cov := map[string]any{
		"evaluations":         evals,
		"distinct_nontrivial": len(distinct),
		"rule":                spec.Rule,
		"samples":             samples,
		"simulated_runs":      len(all),
		"race_detector_runs":  raceRuns,
		"runs_per_hour":       int(float64(len(all)) / wall * 3600),
		"seeds":               map[string]any{"base": o.seed, "count": len(all), "derivation": "seed_i = splitmix(base ^ 0xA5A5A5A5DEADBEEF, i+1) | 1"},
		"sim_time_s":          float64(simMs) / 1000,
		"scheduler_steps":     steps,
		"goroutine_switches":  switches,
		"faults":              faults,
		"probes":              probes,
		"probes_at_zero":      zero,
		"inconclusive_runs":   inconcl,
		"components":          spec.Components,
		"known_findings":      known,
		"violation_classes":   classes,
		"infrastructure":      infra,
		"exhaustive":          false,
	}
	if len(porc) > 0 {
		cov["porcupine"] = porc
	}
	return &evidence{PropertyID: spec.ID, Tier: o.tier, Seed: int64(o.seed), Level: spec.Level, Coverage: cov,
		Assumptions: spec.Assumptions, WallS: wall, Violations: nviol}
}

// ---------------------------------------------------------------- replay command

func cmdReplay(args []string) int {
	pos, o := parseOpts(args)
	if len(pos) != 1 {
		fatal2("usage: vcheck replay <file>")
	}
	data, err := os.ReadFile(pos[0])
	if err != nil {
		fatal2("%v", err)
	}
	var rf replayFile
	if err := json.Unmarshal(data, &rf); err != nil || rf.Case.Harness == "" {
		fatal2("not a replay file: %s", pos[0])
	}
	spec := specs[rf.Property]
	if spec == nil {
		fatal2("replay file names unknown property %q", rf.Property)
	}
	ensureTools()
	sc := newScratch(o.keep)
	defer sc.cleanup()
	race := strings.HasPrefix(rf.Class, "race.")
	bin := sc.build(rf.Case.Harness, race)
	sh := &shrinker{bin: bin, wdir: sc.dir, perRun: 600 * time.Second, target: violation{rf.Property, rf.Class, ""}, maxAtt: 1}
	ok, oc := sh.test(&rf.Case)
	if oc != nil {
		for _, v := range oc.Violations {
			fmt.Printf("replayed: property=%s class=%s\n  %s\n", v.Property, v.Class, strings.ReplaceAll(firstN(v.Msg, 3000), "\n", "\n  "))
		}
	}
	if ok {
		fmt.Printf("VIOLATION property=%s replay=%s\n", rf.Property, pos[0])
		return 1
	}
	fmt.Printf("vcheck: replay of %s does not show class %s on this tree\n", pos[0], rf.Class)
	return 0
}

// ---------------------------------------------------------------- determinism self-test

func cmdDeterminism(args []string) int {
	pos, o := parseOpts(args)
	if len(pos) != 1 {
		fatal2("usage: vcheck determinism <PROP> [--runs N]")
	}
	spec := specs[pos[0]]
	if spec == nil {
		fatal2("no check for property %s", pos[0])
	}
	ensureTools()
	if o.runs == 0 {
		o.runs = 40
	}
	sc := newScratch(o.keep)
	defer sc.cleanup()
	bin := sc.build(spec.Harness, false)
	type key struct{ idx int }
	ref := map[int]string{}
	bad := 0
	var mu sync.Mutex
	var wg sync.WaitGroup
	sem := make(chan struct{}, 16)
	procs := 0
	for rep := 0; rep < 6; rep++ {
		gmp := []int{1, 4, 16}[rep%3]
		for i := 0; i < o.runs; i++ {
			wg.Add(1)
			sem <- struct{}{}
			procs++
			go func(rep, i, gmp int) {
				defer wg.Done()
				defer func() { <-sem }()
				wdir := filepath.Join(sc.dir, fmt.Sprintf("d%d-%d", rep, i))
				os.MkdirAll(wdir, 0770)
				env := []string{"VSIM_MODE=batch", "VSIM_PROP=" + spec.ID, "VSIM_TIER=" + o.tier,
					"VSIM_BASE=" + strconv.FormatUint(o.seed, 10), "VSIM_FROM=" + strconv.Itoa(i), "VSIM_TO=" + strconv.Itoa(i+1), "VSIM_DEADLINE=0"}
				res := runChild(bin, wdir, env, 600*time.Second, gmp)
				sig := fmt.Sprintf("exit=%d", res.exit)
				for _, l := range res.lines {
					if l.T == "done" {
						oc := l.Outcome
						for vi := range oc.Violations {
							oc.Violations[vi].Msg = ""
						}
						b, _ := json.Marshal(struct {
							V  []violation
							T  string
							S  string
							St int
							Sw int
							E  int
							F  map[string]int64
							P  map[string]int64
						}{oc.Violations, oc.TraceHash, oc.StateHash, oc.Steps, oc.Switches, oc.Evals, oc.Faults, oc.Probes})
						sig = string(b)
					}
				}
				os.RemoveAll(wdir)
				mu.Lock()
				if r, ok := ref[i]; !ok {
					ref[i] = sig
				} else if r != sig {
					bad++
					fmt.Printf("NONDETERMINISM idx=%d rep=%d GOMAXPROCS=%d\n  ref: %s\n  got: %s\n", i, rep, gmp, firstN(r, 600), firstN(sig, 600))
				}
				mu.Unlock()
			}(rep, i, gmp)
		}
	}
	wg.Wait()
	fmt.Printf("vcheck determinism %s: %d seeds x 6 repetitions (GOMAXPROCS 1/4/16) in %d processes, %d mismatches\n", spec.ID, o.runs, procs, bad)
	if bad > 0 {
		return 2
	}
	return 0
}

func main() {
	if v := os.Getenv("VERIF_DIR"); v != "" {
		verifDir = v
	} else if wd, err := os.Getwd(); err == nil {
		if _, err := os.Stat(filepath.Join(wd, "cmd/vcheck")); err == nil {
			verifDir = wd
		}
	}
	if v := os.Getenv("VCHECK_REPO"); v != "" {
		repoDir = v
	}
	if len(os.Args) < 2 {
		fatal2("usage: vcheck run|replay|determinism ...")
	}
	switch os.Args[1] {
	case "run":
		os.Exit(cmdRun(os.Args[2:]))
	case "replay":
		os.Exit(cmdReplay(os.Args[2:]))
	case "determinism":
		os.Exit(cmdDeterminism(os.Args[2:]))
	case "instrument":
		ensureTools()
		sc := newScratch(true)
		fmt.Println(sc.dir)
	case "build":
		// vcheck build <PROP> [race]: keep the scratch tree and print the test binary
		ensureTools()
		spec := specs[os.Args[2]]
		if spec == nil {
			fatal2("no such property")
		}
		sc := newScratch(true)
		fmt.Println(sc.build(spec.Harness, len(os.Args) > 3 && os.Args[3] == "race"))
	default:
		fatal2("unknown command %s", os.Args[1])
	}
}
