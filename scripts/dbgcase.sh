#!/bin/sh
# dbgcase.sh <PROP> <replay.json> : run the case of a replay file in a kept scratch build, full child output on stdout
export GOFLAGS=-mod=mod GOPROXY=off GOSUMDB=off GOTOOLCHAIN=local
V=$(cd "$(dirname "$0")/.." && pwd)
B=$($V/bin/vcheck build $1 | tail -1)
D=$(dirname $B)
python3 -c "import json,sys; d=json.load(open('$2')); json.dump(d['case'],open('$D/case.json','w'))"
mkdir -p $D/dbg; cd $D/dbg
timeout ${DBG_TIMEOUT:-120} env VSIM_MODE=replay VSIM_CASE=$D/case.json VSIM_PROP=$1 VSIM_DIR=$D/dbg $B -test.run '^TestSim$' 2>&1 | tr '\r' '\n' | grep -v "^Loading\|^ *$"
rm -rf $D
