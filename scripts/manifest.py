#!/usr/bin/env python3
"""Regenerates MANIFEST.json from scripts/checks.json (claimed checks) — keeps not_applicable current."""
import json, os
V = os.path.dirname(os.path.dirname(os.path.abspath(__file__)))
checks = json.load(open(os.path.join(V, 'scripts/checks.json')))
NA = {
 "C01": "verdict of script verification is a pure function of (scripts, witness, amount, tx, index, flags): no schedule, clock, fault or history for a simulator to vary; needs a reference interpreter and input generation (another technique family)",
 "C03": "signature/key acceptance is a pure predicate over byte strings and the signers are deterministic functions: nothing to simulate",
 "C08": "field and group arithmetic are pure functions and the tables are constants: nothing to simulate",
 "C09": "wire decoding is a pure function of a byte string (the parallel hashing inside BuildTxListExt is exercised under C11)",
 "C10": "record and snapshot codec is a pure round-trip over all records (snapshot write/reload of workload records is exercised inside C07/C11 but the all-records quantifier needs input generation)",
 "C13": "the wallet is an offline single-threaded CLI whose output is a function of flags and files: no schedule, clock, peer or fault sequence",
 "C14": "key derivation is a deterministic function of seed and configuration",
 "C15": "address encodings are pure codecs",
}
ALL = ["C%02d" % i for i in range(1, 21)]
claimed = [c["property_id"] for c in checks["checks"]]
m = {
 "version": 1,
 "setup_cmd": "sh scripts/setup.sh",
 "hooks": {
  "guard": "verif",
  "enable": "no source hooks: every check copies /repo's working tree to a scratch directory and instruments the copy mechanically (cmd/vinstr: sync->simsync, os->simos, go/chan/select/Sleep->simrt); -tags verif is not needed",
  "baseline_off_cmd": "cd /repo && go test -vet=off -count=1 ./... 2>&1 | grep -v 'no test files'",
  "source_commits": [],
  "add_only": True,
 },
 "engines": [{
  "name": "vcheck/simrt",
  "path": "cmd/vcheck, cmd/vinstr, sim/simrt, sim/simsync, sim/simos, sim/simnet, harness/*",
  "serves_properties": claimed,
  "kind_free_text": "deterministic simulation: seeded token scheduler on testing/synctest over a mechanically instrumented scratch copy of /repo, effect-logging disk shim with crash-image materialisation, simulated transport, child-process driver with ddmin shrinking and replay files",
 }],
 "checks": [],
 "not_applicable": [],
 "notes": checks.get("notes", ""),
}
for c in checks["checks"]:
    pid = c["property_id"]
    m["checks"].append({
        "property_id": pid,
        "quick_cmd": "./bin/vcheck run %s --tier quick" % pid,
        "thorough_cmd": "./bin/vcheck run %s --tier thorough" % pid,
        "evidence_file": "/verif/evidence/%s.json" % pid,
        "replay_cmd_template": "./bin/vcheck replay {path}",
        "engine": "vcheck/simrt",
        "level_claimed": {"category": c["category"], "text": c["text"], "design_ref": c["design_ref"]},
        "level_note": c["note"],
        "technique": c["technique"],
    })
for pid in ALL:
    if pid in claimed:
        continue
    if pid in NA:
        m["not_applicable"].append({"property_id": pid, "reason": NA[pid]})
    else:
        m["not_applicable"].append({"property_id": pid, "reason": "check under construction (design in DESIGN.md §5); not claimed until its command is registered"})
json.dump(m, open(os.path.join(V, 'MANIFEST.json'), 'w'), indent=1)
print("MANIFEST.json: claimed", claimed)
