#!/bin/sh
# thorough_all.sh <seed> [budget_s] : every registered thorough command, one after the other (false-alarm control)
cd "$(dirname "$0")/.."
sh scripts/setup.sh >/dev/null 2>&1 || exit 2
SEED=${1:-2}
[ -n "$2" ] && export VERIF_BUDGET_S=$2
for p in C19 C16 C20 C06 C04 C05 C07 C11 C17 C02 C12 C18; do
  s=$(date +%s)
  ./bin/vcheck run $p --tier thorough --seed $SEED > /tmp/thorough-$p-$SEED.log 2>&1
  rc=$?
  echo "$p seed=$SEED exit=$rc wall=$(( $(date +%s) - s ))s :: $(grep '^vcheck: C' /tmp/thorough-$p-$SEED.log | tail -1)"
  grep '^VIOLATION\|INFRA' /tmp/thorough-$p-$SEED.log | head -5
done
