#!/usr/bin/env python3
"""mut.py FILE OLD NEW : replace exactly one occurrence of OLD in FILE (asserts it exists). Helper for hand-made sensitivity mutants."""
import sys
p, old, new = sys.argv[1], sys.argv[2], sys.argv[3]
s = open(p).read()
assert s.count(old) >= 1, "pattern not found in " + p
open(p, 'w').write(s.replace(old, new, 1))
