#!/bin/sh
# quick_all.sh [seed] : every registered quick command, one after the other; evidence/<id>.json is rewritten
cd "$(dirname "$0")/.."
sh scripts/setup.sh >/dev/null 2>&1 || exit 2
SEED=${1:-1}
rc_all=0
for p in C19 C16 C20 C02 C06 C04 C05 C07 C11 C17 C12 C18; do
  out=$(./bin/vcheck run $p --tier quick --seed $SEED 2>&1); rc=$?
  [ $rc != 0 ] && rc_all=1
  echo "$p exit=$rc $(echo "$out" | grep '^vcheck: C' | tail -1)"
  echo "$out" | grep '^VIOLATION\|^KNOWN-FINDING\|INFRA' | head -8
done
exit $rc_all
