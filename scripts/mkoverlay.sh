#!/bin/sh
# Regenerates the go1.26.8 runtime overlay (map iteration / select order as a
# function of runtime.VerifSetSeed) from the installed GOROOT and notes/*.patch.
set -e
V=$(cd "$(dirname "$0")/.." && pwd)
GR=/opt/veriftools/go1.26.8
O=$V/build/overlay
mkdir -p "$O"
for f in rand alg select; do
  cp "$GR/src/runtime/$f.go" "$O/$f.go"
  patch -s -p0 "$O/$f.go" < "$V/notes/runtime_$f.go.patch" || { echo "overlay: patch for $f.go does not apply"; exit 2; }
done
# the current goroutine's id without formatting a stack trace (simrt asks at every scheduling point)
cat >> "$O/rand.go" <<'EOT'

// VerifGoid returns the id of the calling goroutine.
func VerifGoid() uint64 { return getg().goid }
EOT
cat > "$O/overlay.json" <<EOT
{"Replace": {"$GR/src/runtime/alg.go":"$O/alg.go","$GR/src/runtime/rand.go":"$O/rand.go","$GR/src/runtime/select.go":"$O/select.go"}}
EOT
echo "overlay ready: $O/overlay.json"
