#!/bin/bash
# evalseed2.sh <PROP> <n> [pkgdir] : (wave 2+: MUTBASE=/tmp/mut2, stored as <PROP>-<n+IDOFF>; pkgdir from meta.json demo_pkg) confirm a sub-agent's seeded change (demo passes on clean tree, fails with the
# patch, baseline tests of the package still pass), run the property's quick check against it, store under seeded/.
export GOFLAGS=-mod=mod GOPROXY=off GOSUMDB=off GOTOOLCHAIN=local
P=$1; N=$2; PKG=$3
MUTBASE=${MUTBASE:-/tmp/mut2}; IDOFF=${IDOFF:-2}
W=$MUTBASE/$P; S=$W/out/$N; ID=$P-$((N+IDOFF)); OUT=/verif/seeded/$ID
[ -z "$PKG" ] && PKG=$(python3 -c "import json;print(json.load(open('$S/meta.json')).get('demo_pkg','').strip('./'))")
[ -d "$W/$PKG" ] || { echo "no package dir '$PKG'"; exit 2; }
mkdir -p $OUT
cp $S/patch.diff $OUT/patch.diff
DEMO=$(ls $S/*_test.go | head -1)
cp $DEMO $OUT/; [ -f $S/demo.md ] && cp $S/demo.md $OUT/
cd $W && git checkout -q -- . && git clean -fdq -e out
cp $DEMO $W/$PKG/zz_seed_demo_test.go
clean=$(cd $W && go test -vet=off -count=1 -run 'Demo|TestC[0-9]' ./$PKG/ 2>&1 | tail -3 | tr '\n' ' ')
git apply $S/patch.diff || { echo "patch does not apply"; exit 2; }
patched=$(cd $W && go test -vet=off -count=1 -run 'Demo|TestC[0-9]' ./$PKG/ 2>&1 | tail -3 | tr '\n' ' ')
rm -f $W/$PKG/zz_seed_demo_test.go
files=$(git diff --name-only | tr '\n' ' ')
pk=$(git diff --name-only | xargs -n1 dirname | sort -u | sed 's#^#./#' | tr '\n' ' ')
base=$(cd $W && go build $pk 2>&1 | tail -2 | tr '\n' ' '; go test -vet=off -count=1 $pk 2>&1 | grep -v "no test files" | grep -v "TestNewAddrFromString\|TestTaprootScritps" | tail -4 | tr '\n' ' ')
echo "clean:   $clean"; echo "patched: $patched"; echo "baseline(with patch): $base"
# the property's quick check against the change: the scratch worktree is brought to /repo's HEAD plus the patch
# (VCHECK_REPO), so that /repo itself is never touched and checks running elsewhere are not disturbed
git checkout -q -- . && git checkout -q --detach $(git -C /repo rev-parse HEAD) && git apply $S/patch.diff || { echo "patch does not apply to /repo HEAD"; exit 2; }
cd ${VDIR:-/verif}   # VDIR: a frozen copy of /verif, so that the harness sources can be edited while evaluations run
VCHECK_REPO=$W ./bin/vcheck run ${CHECK:-$P} ${EVAL_ARGS} > /tmp/evalseed-$ID.log 2>&1; rc=$?
git -C $W checkout -q -- .
P0=$P; P=${CHECK:-$P}
classes=$(grep '^violation class' /tmp/evalseed-$ID.log | sed 's/violation class \([^ ]*\) (\([0-9]*\) runs.*/\1:\2/' | tr '\n' ' ')
summary=$(grep "^vcheck: $P" /tmp/evalseed-$ID.log | tail -1)
echo "check exit=$rc classes: $classes"; echo "$summary"
P=$P0
python3 - "$ID" "$P" "$S/meta.json" "$clean" "$patched" "$base" "$rc" "$classes" "$summary" "$files" <<'PY'
import json,sys
id,p,meta,clean,patched,base,rc,classes,summary,files=sys.argv[1:]
m=json.load(open(meta))
m.update({"id":id,"property":p,"origin":"independent sub-agent given only the property text and a scratch worktree","files_changed":files.split(),
 "confirmed":{"demo_on_clean_tree":clean.strip(),"demo_with_patch":patched.strip(),"build_and_package_tests_with_patch":base.strip()},
 "quick_check":{"command":"./bin/vcheck run %s --tier quick"%(__import__('os').environ.get('CHECK') or p),"exit":int(rc),"violation_classes":classes.split(),"summary":summary.strip(),"caught":int(rc)==1}})
json.dump(m,open('/verif/seeded/%s/meta.json'%id,'w'),indent=1)
PY
