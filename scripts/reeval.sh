#!/bin/bash
# reeval.sh <seed-id> [check] : run a property's quick check against a kept seeded change (seeded/<id>/patch.diff)
# in a throw-away worktree of /repo's HEAD; prints "<id> <check> caught|MISSED classes..." and removes the worktree.
export GOFLAGS=-mod=mod GOPROXY=off GOSUMDB=off GOTOOLCHAIN=local
V=$(cd "$(dirname "$0")/.." && pwd)
SEEDED=${SEEDED:-/verif/seeded}   # (the frozen copy used with VDIR does not carry seeded/)
ID=$1; P=${ID%%-*}; CHECK=${2:-$(python3 -c "import json;print(json.load(open('$SEEDED/$ID/meta.json'))['quick_check']['command'].split()[2])" 2>/dev/null || echo $P)}
W=/tmp/reeval-$ID
git -C /repo worktree remove --force $W >/dev/null 2>&1
git -C /repo worktree add --detach $W HEAD >/dev/null 2>&1 || { echo "$ID cannot create worktree"; exit 2; }
if ! git -C $W apply $SEEDED/$ID/patch.diff 2>/dev/null; then echo "$ID patch does not apply to HEAD any more"; git -C /repo worktree remove --force $W; exit 3; fi
cd ${VDIR:-$V}
VCHECK_REPO=$W ./bin/vcheck run $CHECK ${EVAL_ARGS} > /tmp/reeval-$ID.log 2>&1; rc=$?
classes=$(grep '^violation class' /tmp/reeval-$ID.log | sed 's/violation class \([^ ]*\) (\([0-9]*\) runs.*/\1:\2/' | tr '\n' ' ')
git -C /repo worktree remove --force $W >/dev/null 2>&1
if [ $rc = 1 ]; then echo "$ID $CHECK caught $classes"; else echo "$ID $CHECK MISSED (exit $rc)"; fi
