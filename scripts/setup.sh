#!/bin/sh
# Builds the framework from files on disk only (offline).
set -e
cd "$(dirname "$0")/.."
export GOFLAGS=-mod=mod GOPROXY=off GOSUMDB=off GOTOOLCHAIN=local
mkdir -p bin build evidence replays
sh scripts/mkoverlay.sh
go1.26.8 build -o bin/vinstr ./cmd/vinstr
go1.26.8 build -o bin/vcheck ./cmd/vcheck
# warm the build cache: std with the runtime overlay, plain and -race
go1.26.8 build -overlay build/overlay/overlay.json std
go1.26.8 build -race -overlay build/overlay/overlay.json std
echo "setup done"
