#!/usr/bin/env python3
import json,sys,hashlib,struct
d=json.load(open(sys.argv[1]))
print('CLASS',d['class'],d.get('shrink_stats'))
print('MSG',d['msg'][:int(sys.argv[2]) if len(sys.argv)>2 else 900])
c=d['case']['cfg']
print({k:v for k,v in c.items() if k!='blocks'})
def hh(b):
    H=b['H']
    raw=struct.pack('<I',H['Ver'])+bytes(H['Prev'])+bytes(H['Merkle'])+struct.pack('<III',H['Time'],H['Bits'],H['Nonce'])
    return hashlib.sha256(hashlib.sha256(raw).digest()).digest()[::-1].hex()[:12]
for i,b in enumerate(c.get('blocks') or []): print('   blk',i,hh(b),'prev',bytes(b['H']['Prev'])[::-1].hex()[:12],'t',b['H']['Time'],b.get('Label'),len(b['Txs'] or []))
for o in d['case']['ops']: print('   ',json.dumps(o))
