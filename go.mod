module verif

go 1.26.8

require (
	github.com/anishathalye/porcupine v1.3.0
	golang.org/x/tools v0.50.0
)
