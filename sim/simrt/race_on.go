//go:build race

package simrt

import (
	"runtime"
	"unsafe"
)

func raceOff() { runtime.RaceDisable() }
func raceOn()  { runtime.RaceEnable() }

func RaceAcquire(p unsafe.Pointer)      { runtime.RaceAcquire(p) }
func RaceRelease(p unsafe.Pointer)      { runtime.RaceRelease(p) }
func RaceReleaseMerge(p unsafe.Pointer) { runtime.RaceReleaseMerge(p) }

// RaceOff/RaceOn bracket simulator-internal slice growth and copying: growslice and slicecopy
// report their accesses to the detector even when the caller is go:norace.
func RaceOff() { runtime.RaceDisable() }
func RaceOn()  { runtime.RaceEnable() }
