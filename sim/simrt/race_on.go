//go:build race

package simrt

import (
	"runtime"
	"unsafe"
)

func raceOff() { runtime.RaceDisable() }
func raceOn()  { runtime.RaceEnable() }

func RaceAcquire(p unsafe.Pointer)      { runtime.RaceAcquire(p) }
func RaceRelease(p unsafe.Pointer)      { runtime.RaceRelease(p) }
func RaceReleaseMerge(p unsafe.Pointer) { runtime.RaceReleaseMerge(p) }
