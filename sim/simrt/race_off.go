//go:build !race

package simrt

import "unsafe"

func raceOff() {}
func raceOn()  {}

func RaceAcquire(p unsafe.Pointer)      {}
func RaceRelease(p unsafe.Pointer)      {}
func RaceReleaseMerge(p unsafe.Pointer) {}

func RaceOff() {}
func RaceOn()  {}
