// Package simrt is the deterministic token scheduler of the gocoin simulator.
//
// Exactly one instrumented goroutine executes user code at any time.  Which
// one, and for how long, is decided by a controller goroutine from one
// SplitMix64 stream.  Everything runs inside one testing/synctest bubble, so
// time is the bubble's fake clock and "everybody else is durably blocked"
// (synctest.Wait) is the controller's notion of quiescence.
package simrt

import (
	"fmt"
	"runtime"
	"runtime/debug"
	"sort"
	"strconv"
	"sync"
	"sync/atomic"
	"testing/synctest"
	"time"
)

const (
	stNew = iota
	stRunning
	stParked
	stBlocked
	stDone
)

// G is one simulated goroutine.
type G struct {
	Pts   int // synchronisation points this goroutine has passed (independent of the scheduling mode)
	quiet int // >0: harness set-up code is running on this goroutine: its shim calls are not scheduling points
	ID     string
	state  int
	resume chan struct{}
	spawn  int
	consec int
	// Held is the multiset of shim locks currently owned by this goroutine
	// (a slice, not a map: runtime map code is visible to the race detector).
	Held []any
	prio   int64
	hasPr  bool
	runLen int
	// OnBlock, when set, is consulted by nobody but harness code.
	Tag string
}

type event struct {
	g    *G
	done bool
}

// Config of one simulated run.
type Config struct {
	Seed       uint64
	YieldP     float64       // probability to yield at a scheduling point
	MaxConsec  int           // fairness bound (scheduling points without yielding)
	StepBudget int           // controller decisions; 0 = unlimited
	ChildFirstP float64      // probability that a newly started goroutine runs first, until it blocks or ends
	TimerP     float64       // probability that fake time advances although goroutines are runnable
	IdleLimit  time.Duration // simulated time with nothing runnable => deadlock (default 2h)
	// PCT > 0 selects priority scheduling (Burckhardt et al.): every goroutine gets a random priority when it
	// first parks, the runnable goroutine of highest priority always runs, every scheduling point yields, and
	// at PCT-1 seeded steps the goroutine chosen there drops to the lowest priority.  It reaches "A runs to
	// completion before B makes its next move" orders that uniform random choice almost never produces.
	PCT      int
	PCTSteps int // horizon (in controller steps) within which the priority change points are drawn (default 3000)
	AfterMain  int           // scheduler steps granted to the remaining goroutines after main has returned (default 300000)
	TraceOn    bool
}

// ExitPanic is the panic value simos.Exit raises.
type ExitPanic struct{ Code int }

// Result of one simulated run.
type Result struct {
	Steps      int
	Switches   int
	TimerFirst int
	ChildFirst int // goroutines that were run first, ahead of their parents
	Deadlock   bool
	Blocked    []string
	Budget     bool
	Leaked     bool // goroutines were still running long after main had returned
	Panic      string // non-empty: a simulated goroutine panicked (value + stack)
	PanicG     string
	Exit       *int // os.Exit(code) called by simulated code
	TraceHash  uint64
	Elapsed    time.Duration
	Trace      []string
	Points     map[string]int
}

// Failed reports whether the run ended abnormally (the process must not be reused).
func (r *Result) Failed() bool {
	return r.Deadlock || r.Budget || r.Leaked || r.Panic != "" || r.Exit != nil
}

type Sim struct {
	Active bool
	cfg    Config
	rng    uint64
	events chan event
	cur    *G
	last   string
	gmu    sync.Mutex
	gs     []gEntry // live goroutines (goid -> G); linear scan, guarded by gmu under raceOff
	all    []*G
	res    Result
	hash   uint64
	abort  bool
	mainDone bool
	sleeping int32
	sticky     string // id of the goroutine that runs first (child-first scheduling)
	stickyLeft int
	// SeqNo is a global event sequence number handed out by Stamp().
	seq uint64
}

type gEntry struct {
	id uint64
	g  *G
}

// Debug, if set, is called at controller decisions (debugging aid).
var Debug func(what, id string)

// S is the simulator singleton.
var S Sim

//go:norace
func goid() uint64 { return runtime.VerifGoid() } // (runtime overlay, scripts/mkoverlay.sh)

//go:norace
func (s *Sim) next() uint64 {
	s.rng += 0x9E3779B97F4A7C15
	z := s.rng
	z = (z ^ (z >> 30)) * 0xBF58476D1CE4E5B9
	z = (z ^ (z >> 27)) * 0x94D049BB133111EB
	return z ^ (z >> 31)
}

// Intn draws from the scheduler stream.  Only call while holding the token
// (i.e. from the running goroutine or the controller).
//
//go:norace
func Intn(n int) int {
	if n <= 1 {
		return 0
	}
	return int(S.next() % uint64(n))
}

//go:norace
func Float() float64 { return float64(S.next()>>11) / (1 << 53) }

// Stamp returns the next global event sequence number (for history recording).
//
//go:norace
func Stamp() uint64 { S.seq++; return S.seq }

//go:norace
func self() *G {
	id := goid()
	var g *G
	raceOff()
	S.gmu.Lock()
	for i := range S.gs {
		if S.gs[i].id == id {
			g = S.gs[i].g
			break
		}
	}
	S.gmu.Unlock()
	raceOn()
	return g
}

//go:norace
func register(g *G) {
	id := goid()
	raceOff()
	S.gmu.Lock()
	S.gs = append(S.gs, gEntry{id, g})
	S.all = append(S.all, g)
	S.gmu.Unlock()
	raceOn()
}

//go:norace
func unregister() {
	id := goid()
	raceOff()
	S.gmu.Lock()
	for i := range S.gs {
		if S.gs[i].id == id {
			S.gs[i] = S.gs[len(S.gs)-1]
			S.gs = S.gs[:len(S.gs)-1]
			break
		}
	}
	S.gmu.Unlock()
	raceOn()
}

//go:norace
func liveCount() int {
	raceOff()
	S.gmu.Lock()
	n := len(S.gs)
	S.gmu.Unlock()
	raceOn()
	return n
}

//go:norace
func (g *G) park() {
	g.state = stParked
	g.consec = 0
	raceOff()
	S.events <- event{g: g}
	<-g.resume
	raceOn()
	g.state = stRunning
}

//go:norace
func mixHash(h uint64, s string) uint64 {
	for i := 0; i < len(s); i++ {
		h ^= uint64(s[i])
		h *= 1099511628211
	}
	h ^= 0xff
	h *= 1099511628211
	return h
}

// Point is a scheduling point reached by the goroutine that currently runs user code.
//
//go:norace
func Point(site string) {
	if !S.Active {
		return
	}
	g := self()
	if g == nil {
		return
	}
	if g.state != stRunning {
		g.park()
		return
	}
	if g.quiet > 0 {
		return
	}
	if S.res.Points != nil {
		S.res.Points[site]++
	}
	g.consec++
	g.Pts++
	if S.cfg.PCT > 0 || g.consec >= S.cfg.MaxConsec || (S.cfg.YieldP > 0 && Float() < S.cfg.YieldP) {
		g.park()
	}
}

// Quiet runs f (harness set-up work that calls into instrumented code a great many times, with no other
// goroutine interested in what it touches) without treating its shim calls as scheduling points.
//
//go:norace
func Quiet(f func()) {
	g := self()
	if g == nil {
		f()
		return
	}
	g.quiet++
	defer func() { g.quiet-- }()
	f()
}

// Yield parks unconditionally (used by harness polling loops).
//
//go:norace
func Yield() {
	if !S.Active {
		runtime.Gosched()
		return
	}
	g := self()
	if g == nil {
		return
	}
	g.park()
}

// Woken must be called right after any operation that may have blocked.
//
//go:norace
func Woken() {
	if !S.Active {
		return
	}
	g := self()
	if g == nil {
		return
	}
	if g.state != stRunning {
		g.park()
	}
}

//go:norace
func finish(g *G) {
	if r := recover(); r != nil {
		if ep, ok := r.(ExitPanic); ok {
			if S.res.Exit == nil {
				c := ep.Code
				S.res.Exit = &c
				S.res.PanicG = g.ID
				S.res.Panic = ""
			}
		} else if S.res.Panic == "" && S.res.Exit == nil {
			S.res.Panic = fmt.Sprint(r) + "\n" + string(debug.Stack())
			S.res.PanicG = g.ID
		}
		S.abort = true
	}
	g.state = stDone
	unregister()
	raceOff()
	S.events <- event{g: g, done: true}
	raceOn()
}

// Go starts fn as a simulated goroutine.  The child parks before its first
// instruction and gets the deterministic id <parent>.<spawn index>.
//
//go:norace
func Go(fn func()) {
	if !S.Active {
		go fn()
		return
	}
	p := self()
	var id string
	if p == nil {
		id = "x" + strconv.Itoa(int(Stamp()))
	} else {
		id = p.ID + "." + strconv.Itoa(p.spawn)
		p.spawn++
	}
	child := &G{ID: id, state: stNew, resume: make(chan struct{})}
	go func() {
		register(child)
		defer finish(child)
		child.park()
		fn()
	}()
	if p != nil && S.cfg.ChildFirstP > 0 && p.quiet == 0 && Float() < S.cfg.ChildFirstP {
		// child-first: the new goroutine runs (and keeps running at its scheduling points) until it blocks or
		// ends, before its parent continues - "the background job was already done when ..."
		S.sticky, S.stickyLeft = id, 4000
		S.res.ChildFirst++
		p.park()
		return
	}
	Point("go")
}

func Recv[T any](ch <-chan T) T {
	Point("recv")
	v := <-ch
	Woken()
	return v
}

func Recv2[T any](ch <-chan T) (T, bool) {
	Point("recv")
	v, ok := <-ch
	Woken()
	return v, ok
}

func Send[T any](ch chan<- T, v T) {
	Point("send")
	ch <- v
	Woken()
}

//go:norace
func PreSelect() { Point("select") }

//go:norace
func Sleep(d time.Duration) {
	Point("sleep")
	if d > 0 {
		raceOff()
		atomic.AddInt32(&S.sleeping, 1)
		raceOn()
		time.Sleep(d)
		raceOff()
		atomic.AddInt32(&S.sleeping, -1)
		raceOn()
	}
	Woken()
}

// Cur returns the G of the calling goroutine (nil outside the simulation).
//
//go:norace
func Cur() *G {
	if !S.Active {
		return nil
	}
	return self()
}

// CurID returns the id of the calling simulated goroutine ("" outside).
//
//go:norace
func CurID() string {
	if g := Cur(); g != nil {
		return g.ID
	}
	return ""
}

// Block waits on ch (a channel created inside the bubble) and parks after wake-up.
//
//go:norace
func Block(ch chan struct{}) {
	<-ch
	Woken()
}

// Steps returns the number of controller decisions so far.
//
//go:norace
func Steps() int { return S.res.Steps }

// HeldBy returns a description of the locks held by goroutine id.
//
//go:norace
func HeldCount(g *G) int { return len(g.Held) }

// Run executes main under the scheduler.  It must be called inside a synctest bubble.
//
//go:norace
func Run(cfg Config, main func()) Result {
	if cfg.MaxConsec <= 0 {
		cfg.MaxConsec = 1000
	}
	if cfg.IdleLimit == 0 {
		cfg.IdleLimit = 2 * time.Hour
	}
	S = Sim{Active: true, cfg: cfg, rng: cfg.Seed ^ 0x5851F42D4C957F2D,
		events: make(chan event, 1<<16)}
	S.hash = 14695981039346656037
	if cfg.TraceOn {
		S.res.Points = map[string]int{}
	}
	start := time.Now()
	root := &G{ID: "0", state: stNew, resume: make(chan struct{})}
	go func() {
		register(root)
		defer finish(root)
		root.park()
		main()
	}()
	var changeAt []int
	lowest := int64(0)
	if cfg.PCT > 1 {
		if cfg.PCTSteps <= 0 {
			cfg.PCTSteps = 3000
		}
		for i := 1; i < cfg.PCT; i++ {
			changeAt = append(changeAt, Intn(cfg.PCTSteps))
		}
	}
	mainDoneAt := -1
	if cfg.AfterMain <= 0 {
		cfg.AfterMain = 300000
	}
	var parked []*G
	take := func(ev event) {
		if ev.done {
			if ev.g == root {
				S.mainDone = true
			}
		} else {
			parked = append(parked, ev.g)
		}
	}
	for {
		synctest.Wait()
	drain:
		for {
			select {
			case ev := <-S.events:
				take(ev)
			default:
				break drain
			}
		}
		if S.cur != nil && S.cur.state != stParked && S.cur.state != stDone {
			S.cur.state = stBlocked
		}
		S.cur = nil
		if S.abort {
			break
		}
		if S.mainDone && liveCount() == 0 {
			break
		}
		if cfg.StepBudget > 0 && S.res.Steps >= cfg.StepBudget {
			S.res.Budget = true
			break
		}
		if S.mainDone {
			if mainDoneAt < 0 {
				mainDoneAt = S.res.Steps
			} else if S.res.Steps-mainDoneAt > cfg.AfterMain {
				S.res.Leaked = true
				break
			}
		}
		if len(parked) == 0 {
			// everyone is blocked: let the fake clock advance by blocking ourselves
			raceOff()
			tm := time.NewTimer(cfg.IdleLimit)
			select {
			case ev := <-S.events:
				tm.Stop()
				raceOn()
				take(ev)
			case <-tm.C:
				// nothing happened for IdleLimit of simulated time; that is a deadlock
				// unless somebody is in a (long) Sleep, which will end by itself
				// a goroutine may have woken up at the very same simulated instant: let it settle first
				synctest.Wait()
				select {
				case ev := <-S.events:
					take(ev)
				default:
					if atomic.LoadInt32(&S.sleeping) == 0 {
						S.res.Deadlock = true
					}
				}
				raceOn()
			}
			if S.res.Deadlock {
				break
			}
			continue
		}
		if cfg.TimerP > 0 && Float() < cfg.TimerP {
			// let timers that are due within a drawn interval fire before the next runnable goroutine
			d := time.Duration(1+Intn(20)) * time.Millisecond / 2
			S.res.TimerFirst++
			raceOff()
			time.Sleep(d)
			raceOn()
			continue
		}
		for i := 1; i < len(parked); i++ { // insertion sort by deterministic id
			for j := i; j > 0 && parked[j].ID < parked[j-1].ID; j-- {
				parked[j], parked[j-1] = parked[j-1], parked[j]
			}
		}
		pi := Intn(len(parked))
		stuck := false
		if S.sticky != "" {
			stuck = false
			for i, x := range parked {
				if x.ID == S.sticky {
					pi, stuck = i, true
				}
			}
			S.stickyLeft--
			if !stuck || S.stickyLeft <= 0 {
				S.sticky = "" // it blocks, has ended, or has had its share
			}
		}
		if cfg.PCT > 0 && !stuck {
			// highest priority first; priorities are drawn when a goroutine is first seen
			for _, x := range parked {
				if !x.hasPr {
					x.prio, x.hasPr = int64(S.next()>>2), true
				}
			}
			pi = 0
			for i, x := range parked {
				if x.prio > parked[pi].prio {
					pi = i
				}
			}
			for _, cp := range changeAt {
				if cp == S.res.Steps {
					lowest--
					parked[pi].prio = lowest
				}
			}
			if S.last == parked[pi].ID {
				parked[pi].runLen++
				if parked[pi].runLen > cfg.MaxConsec*20 {
					// a polling loop at the top priority must not starve the rest for ever
					lowest--
					parked[pi].prio, parked[pi].runLen = lowest, 0
				}
			} else {
				parked[pi].runLen = 0
			}
		}
		g := parked[pi]
		pick := g.ID
		parked = append(parked[:pi], parked[pi+1:]...)
		S.res.Steps++
		if pick != S.last {
			S.res.Switches++
			S.last = pick
		}
		S.hash = mixHash(S.hash, pick)
		if cfg.TraceOn {
			S.res.Trace = append(S.res.Trace, pick)
		}
		if Debug != nil {
			Debug("pick", pick)
		}
		S.cur = g
		raceOff()
		g.resume <- struct{}{}
		raceOn()
	}
	if S.res.Deadlock || S.res.Budget || S.res.Leaked {
		raceOff()
		S.gmu.Lock()
		for _, g := range S.all {
			if g.state == stBlocked || g.state == stParked {
				st := "blocked"
				if g.state == stParked {
					st = "parked"
				}
				S.res.Blocked = append(S.res.Blocked, g.ID+":"+st+":"+g.Tag)
			}
		}
		S.gmu.Unlock()
		raceOn()
		sort.Strings(S.res.Blocked)
	}
	S.res.TraceHash = S.hash
	S.res.Elapsed = time.Since(start)
	S.Active = false
	return S.res
}
