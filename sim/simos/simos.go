// Package simos replaces os in the instrumented scratch copy of gocoin for
// the packages that own persistent state.  It passes every call through to the
// real file system, and additionally
//
//   - makes every call a scheduling point,
//   - logs every mutating call on a path below Root as a numbered *effect*
//     (with the bytes written), so that the directory image "as of just before
//     effect k" can be materialised afterwards for any k (a process death
//     between two file-system effects), with an optional torn last write,
//   - turns os.Exit into a catchable simulator event.
package simos

import (
	"io"
	"io/fs"
	"os"
	"path/filepath"
	"strings"
	"time"

	"verif/sim/simrt"
)

type FileInfo = os.FileInfo
type FileMode = os.FileMode
type Signal = os.Signal
type PathError = os.PathError

const (
	PathSeparator = os.PathSeparator
	O_RDONLY      = os.O_RDONLY
	O_WRONLY      = os.O_WRONLY
	O_RDWR        = os.O_RDWR
	O_APPEND      = os.O_APPEND
	O_CREATE      = os.O_CREATE
	O_EXCL        = os.O_EXCL
	O_SYNC        = os.O_SYNC
	O_TRUNC       = os.O_TRUNC
	SEEK_SET      = 0
	SEEK_CUR      = 1
	SEEK_END      = 2
	ModePerm      = os.ModePerm
)

var (
	Args        = os.Args
	Stdin       = os.Stdin
	Stdout      = os.Stdout
	Stderr      = os.Stderr
	Interrupt   = os.Interrupt
	Kill        = os.Kill
	ErrNotExist = os.ErrNotExist
	ErrExist    = os.ErrExist
)

func Getenv(k string) string                       { return os.Getenv(k) }
func Getpagesize() int                             { return os.Getpagesize() }
func TempDir() string                              { return os.TempDir() }
func IsNotExist(err error) bool                    { return os.IsNotExist(err) }
func IsExist(err error) bool                       { return os.IsExist(err) }
func Getpid() int                                  { return os.Getpid() }
func Getwd() (string, error)                       { return os.Getwd() }
func ReadDir(name string) ([]os.DirEntry, error)   { simrt.Point("os"); return os.ReadDir(name) }
func Chtimes(n string, a, m time.Time) error       { return os.Chtimes(n, a, m) }
func Lstat(name string) (os.FileInfo, error)       { simrt.Point("os"); return os.Lstat(name) }
func Stat(name string) (os.FileInfo, error)        { simrt.Point("os"); return os.Stat(name) }
func ReadFile(name string) ([]byte, error)         { simrt.Point("os"); return os.ReadFile(name) }
func Executable() (string, error)                  { return os.Executable() }
func Hostname() (string, error)                    { return "sim", nil }
func UserHomeDir() (string, error)                 { return os.UserHomeDir() }
func SameFile(a, b os.FileInfo) bool               { return os.SameFile(a, b) }
func Chmod(name string, m os.FileMode) error       { return os.Chmod(name, m) }
func Chdir(d string) error                         { return os.Chdir(d) }
func Environ() []string                            { return os.Environ() }
func LookupEnv(k string) (string, bool)            { return os.LookupEnv(k) }
func Setenv(k, v string) error                     { return os.Setenv(k, v) }
func NewFile(fd uintptr, name string) *os.File     { return os.NewFile(fd, name) }
func FindProcess(pid int) (*os.Process, error)     { return os.FindProcess(pid) }
func DirFS(dir string) fs.FS                       { return os.DirFS(dir) }
func Pipe() (r *os.File, w *os.File, err error)    { return os.Pipe() }
func IsPermission(err error) bool                  { return os.IsPermission(err) }
func Truncate(name string, size int64) error       { return truncatePath(name, size) }
func Symlink(o, n string) error                    { return os.Symlink(o, n) }
func Readlink(n string) (string, error)            { return os.Readlink(n) }

// Exit is os.Exit: inside the simulation it unwinds the calling goroutine and
// ends the run with Result.Exit set.
func Exit(code int) {
	if simrt.S.Active {
		panic(simrt.ExitPanic{Code: code})
	}
	os.Exit(code)
}

// ---------------------------------------------------------------- effect log

// Effect kinds.
const (
	KCreate   = "create"   // create-or-truncate Path (Trunc says whether an existing file is emptied)
	KWrite    = "write"    // Data at Off in Path
	KRename   = "rename"   // Path -> Path2
	KRemove   = "remove"   // Path
	KMkdir    = "mkdir"    // Path
	KTruncate = "truncate" // Path to Off bytes
	KSync     = "sync"     // Path (marker only; not a state change under the process-death model)
)

// Effect is one logged file-system effect; paths are relative to Root.
type Effect struct {
	Seq   int
	Kind  string
	Path  string
	Path2 string `json:",omitempty"`
	Off   int64
	Data  []byte `json:",omitempty"`
	G     string // simulated goroutine that issued it
	Step  int    // scheduler step at which it was issued
}

var (
	// Root is the directory whose mutations are logged ("" = log nothing).
	Root string
	// Log is the effect log of the current run.
	Log []Effect
	// OnEffect, if set, is called (by the goroutine issuing the effect, holding the
	// token) just before effect e is applied.
	OnEffect func(e *Effect)
	// Opens counts file opens for reading or writing (probe).
	Opens int
)

// Reset clears the log and sets the root.
//go:norace
func Reset(root string) {
	Root = filepath.Clean(root)
	Log = nil
	OnEffect = nil
	Opens = 0
}

//go:norace
// LogLen returns the number of effects logged so far.
//
//go:norace
func LogLen() int { return len(Log) }

// Snapshot returns a copy of the effect log.
//
//go:norace
func Snapshot() []Effect { return append([]Effect(nil), Log...) }

//go:norace
func rel(p string) (string, bool) {
	if Root == "" {
		return "", false
	}
	c := filepath.Clean(p)
	if !filepath.IsAbs(c) {
		if a, err := filepath.Abs(c); err == nil {
			c = a
		}
	}
	if c == Root {
		return ".", true
	}
	if strings.HasPrefix(c, Root+string(os.PathSeparator)) {
		return c[len(Root)+1:], true
	}
	return "", false
}

//go:norace
func logEffect(kind, path, path2 string, off int64, data []byte) {
	r, ok := rel(path)
	if !ok {
		return
	}
	e := Effect{Seq: len(Log), Kind: kind, Path: r, Off: off, G: simrt.CurID(), Step: simrt.Steps()}
	if path2 != "" {
		r2, ok2 := rel(path2)
		if !ok2 {
			r2 = "!outside:" + path2
		}
		e.Path2 = r2
	}
	if data != nil {
		e.Data = append([]byte(nil), data...)
	}
	if OnEffect != nil {
		OnEffect(&e)
	}
	Log = append(Log, e)
}

func exists(p string) bool {
	_, err := os.Lstat(p)
	return err == nil
}

// ---------------------------------------------------------------- files

// File wraps *os.File.
type File struct {
	f    *os.File
	name string
	app  bool
}

//go:norace
func wrap(f *os.File, name string, flag int) *File {
	Opens++
	return &File{f: f, name: name, app: flag&os.O_APPEND != 0}
}

func Create(name string) (*File, error) {
	return OpenFile(name, os.O_RDWR|os.O_CREATE|os.O_TRUNC, 0666)
}

func Open(name string) (*File, error) {
	return OpenFile(name, os.O_RDONLY, 0)
}

func OpenFile(name string, flag int, perm os.FileMode) (*File, error) {
	simrt.Point("os")
	had := exists(name)
	if flag&os.O_CREATE != 0 && flag&os.O_EXCL != 0 && had {
		f, err := os.OpenFile(name, flag, perm)
		if err != nil {
			return nil, err
		}
		return wrap(f, name, flag), nil
	}
	// log before applying, so that a crash point "before effect k" excludes it
	if flag&os.O_CREATE != 0 && !had {
		if _, err := os.Stat(filepath.Dir(name)); err == nil {
			logEffect(KCreate, name, "", 0, nil)
		}
	} else if flag&os.O_TRUNC != 0 && had && flag&(os.O_WRONLY|os.O_RDWR) != 0 {
		logEffect(KTruncate, name, "", 0, nil)
	}
	f, err := os.OpenFile(name, flag, perm)
	if err != nil {
		return nil, err
	}
	return wrap(f, name, flag), nil
}

func (f *File) Name() string                 { return f.f.Name() }
func (f *File) Fd() uintptr                  { return f.f.Fd() }
func (f *File) Stat() (os.FileInfo, error)   { return f.f.Stat() }
func (f *File) Read(b []byte) (int, error)   { simrt.Point("os"); return f.f.Read(b) }
func (f *File) ReadAt(b []byte, off int64) (int, error) {
	simrt.Point("os")
	return f.f.ReadAt(b, off)
}
func (f *File) Seek(off int64, whence int) (int64, error) { return f.f.Seek(off, whence) }
func (f *File) ReadFrom(r io.Reader) (int64, error) {
	return io.Copy(struct{ io.Writer }{f}, r)
}
func (f *File) Readdir(n int) ([]os.FileInfo, error)   { return f.f.Readdir(n) }
func (f *File) Readdirnames(n int) ([]string, error)   { return f.f.Readdirnames(n) }
func (f *File) ReadDir(n int) ([]os.DirEntry, error)   { return f.f.ReadDir(n) }
func (f *File) Chmod(m os.FileMode) error              { return f.f.Chmod(m) }
func (f *File) SetDeadline(t time.Time) error          { return f.f.SetDeadline(t) }

func (f *File) Write(b []byte) (int, error) {
	simrt.Point("os")
	var off int64
	if len(b) > 0 {
		if f.app {
			if st, err := f.f.Stat(); err == nil {
				off = st.Size()
			}
		} else {
			off, _ = f.f.Seek(0, io.SeekCurrent)
		}
	}
	n, err := f.f.Write(b)
	if n > 0 {
		logEffect(KWrite, f.name, "", off, b[:n]) // only what the kernel took
	}
	return n, err
}

func (f *File) WriteString(s string) (int, error) { return f.Write([]byte(s)) }

func (f *File) WriteAt(b []byte, off int64) (int, error) {
	simrt.Point("os")
	n, err := f.f.WriteAt(b, off)
	if n > 0 {
		logEffect(KWrite, f.name, "", off, b[:n])
	}
	return n, err
}

func (f *File) Truncate(size int64) error {
	simrt.Point("os")
	logEffect(KTruncate, f.name, "", size, nil)
	return f.f.Truncate(size)
}

func (f *File) Sync() error {
	simrt.Point("os")
	logEffect(KSync, f.name, "", 0, nil)
	return f.f.Sync()
}

func (f *File) Close() error {
	simrt.Point("os")
	if f == nil || f.f == nil {
		return os.ErrInvalid
	}
	return f.f.Close()
}

// ---------------------------------------------------------------- path operations

func truncatePath(name string, size int64) error {
	simrt.Point("os")
	if exists(name) {
		logEffect(KTruncate, name, "", size, nil)
	}
	return os.Truncate(name, size)
}

func Rename(oldp, newp string) error {
	simrt.Point("os")
	if exists(oldp) {
		logEffect(KRename, oldp, newp, 0, nil)
	}
	return os.Rename(oldp, newp)
}

func Remove(name string) error {
	simrt.Point("os")
	if exists(name) {
		// a non-empty directory cannot be removed: no effect then
		if st, err := os.Lstat(name); err == nil && st.IsDir() {
			if ents, _ := os.ReadDir(name); len(ents) > 0 {
				return os.Remove(name)
			}
		}
		logEffect(KRemove, name, "", 0, nil)
	}
	return os.Remove(name)
}

func RemoveAll(path string) error {
	simrt.Point("os")
	if !exists(path) {
		return nil
	}
	// one effect per entry, children first
	var list []string
	filepath.Walk(path, func(p string, info os.FileInfo, err error) error {
		if err == nil {
			list = append(list, p)
		}
		return nil
	})
	for i := len(list) - 1; i >= 0; i-- {
		logEffect(KRemove, list[i], "", 0, nil)
		if err := os.Remove(list[i]); err != nil {
			return os.RemoveAll(path)
		}
	}
	return nil
}

func Mkdir(name string, perm os.FileMode) error {
	simrt.Point("os")
	if !exists(name) {
		if _, err := os.Stat(filepath.Dir(name)); err == nil {
			logEffect(KMkdir, name, "", 0, nil)
		}
	}
	return os.Mkdir(name, perm)
}

func MkdirAll(path string, perm os.FileMode) error {
	simrt.Point("os")
	// one effect per missing level, top-down
	var missing []string
	p := filepath.Clean(path)
	for p != "." && p != string(os.PathSeparator) && !exists(p) {
		missing = append(missing, p)
		p = filepath.Dir(p)
	}
	for i := len(missing) - 1; i >= 0; i-- {
		logEffect(KMkdir, missing[i], "", 0, nil)
		if err := os.Mkdir(missing[i], perm); err != nil {
			return os.MkdirAll(path, perm)
		}
	}
	if len(missing) == 0 {
		return os.MkdirAll(path, perm)
	}
	return nil
}

// WriteFile = create, write, close - three separately visible steps.
func WriteFile(name string, data []byte, perm os.FileMode) error {
	f, err := OpenFile(name, os.O_WRONLY|os.O_CREATE|os.O_TRUNC, perm)
	if err != nil {
		return err
	}
	_, err = f.Write(data)
	if e := f.Close(); err == nil {
		err = e
	}
	return err
}

func CreateTemp(dir, pattern string) (*File, error) {
	simrt.Point("os")
	f, err := os.CreateTemp(dir, pattern)
	if err != nil {
		return nil, err
	}
	// logged after the fact (the name is not known before)
	logEffect(KCreate, f.Name(), "", 0, nil)
	return wrap(f, f.Name(), os.O_RDWR), nil
}

// ---------------------------------------------------------------- crash images

// Mutating reports whether effect e changes the directory state.
func (e *Effect) Mutating() bool { return e.Kind != KSync }

// Apply performs effect e below dir.  If torn >= 0 and e is a write, only the
// first torn bytes are written.
func Apply(dir string, e *Effect, torn int) error {
	p := filepath.Join(dir, e.Path)
	switch e.Kind {
	case KCreate:
		f, err := os.OpenFile(p, os.O_RDWR|os.O_CREATE|os.O_TRUNC, 0666)
		if err != nil {
			return err
		}
		return f.Close()
	case KWrite:
		f, err := os.OpenFile(p, os.O_RDWR, 0666)
		if err != nil {
			if os.IsNotExist(err) {
				return nil // the live write went to an open file that had been unlinked meanwhile: no visible effect
			}
			return err
		}
		d := e.Data
		if torn >= 0 && torn < len(d) {
			d = d[:torn]
		}
		_, err = f.WriteAt(d, e.Off)
		f.Close()
		return err
	case KRename:
		if strings.HasPrefix(e.Path2, "!outside:") {
			return os.Remove(p)
		}
		return os.Rename(p, filepath.Join(dir, e.Path2))
	case KRemove:
		return os.Remove(p)
	case KMkdir:
		return os.Mkdir(p, 0770)
	case KTruncate:
		return os.Truncate(p, e.Off)
	case KSync:
		return nil
	}
	return nil
}

// Materialize copies the tree template (may be "") to dst and applies
// log[0:k]; if torn >= 0 it then applies the first torn bytes of effect k
// (which must be a write).
func Materialize(template string, log []Effect, k int, torn int, dst string) error {
	if err := os.MkdirAll(dst, 0770); err != nil {
		return err
	}
	if template != "" {
		if err := CopyTree(template, dst); err != nil {
			return err
		}
	}
	for i := 0; i < k && i < len(log); i++ {
		if err := Apply(dst, &log[i], -1); err != nil {
			return &os.PathError{Op: "replay-effect#" + itoa(i) + ":" + log[i].Kind, Path: log[i].Path, Err: err}
		}
	}
	if torn >= 0 && k < len(log) && log[k].Kind == KWrite {
		if err := Apply(dst, &log[k], torn); err != nil {
			return err
		}
	}
	return nil
}

func itoa(i int) string {
	if i == 0 {
		return "0"
	}
	var b [20]byte
	n := len(b)
	for i > 0 {
		n--
		b[n] = byte('0' + i%10)
		i /= 10
	}
	return string(b[n:])
}

// CopyTree copies a directory tree with plain os calls (not logged).
func CopyTree(src, dst string) error {
	return filepath.Walk(src, func(p string, info os.FileInfo, err error) error {
		if err != nil {
			return err
		}
		r, _ := filepath.Rel(src, p)
		t := filepath.Join(dst, r)
		if info.IsDir() {
			return os.MkdirAll(t, 0770)
		}
		d, err := os.ReadFile(p)
		if err != nil {
			return err
		}
		return os.WriteFile(t, d, 0660)
	})
}

// TreeHash returns a digest of names, sizes and contents below dir (for
// comparing a materialised image with the live directory).
func TreeHash(dir string) (uint64, error) {
	h := uint64(14695981039346656037)
	mix := func(b []byte) {
		for _, c := range b {
			h ^= uint64(c)
			h *= 1099511628211
		}
		h ^= 0xff
		h *= 1099511628211
	}
	err := filepath.Walk(dir, func(p string, info os.FileInfo, err error) error {
		if err != nil {
			return err
		}
		r, _ := filepath.Rel(dir, p)
		mix([]byte(r))
		if !info.IsDir() {
			d, err := os.ReadFile(p)
			if err != nil {
				return err
			}
			mix(d)
		}
		return nil
	})
	return h, err
}
