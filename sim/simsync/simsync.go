// Package simsync replaces sync in the instrumented scratch copy of gocoin.
// The primitives are not wrappers around sync: each is a word of state plus a
// queue of waiters, each waiter blocking on a channel made inside the bubble
// (durable for synctest).  Who gets a released lock is a scheduler decision.
package simsync

import (
	"sync"
	"unsafe"

	"verif/sim/simrt"
)

type Once = sync.Once
type Pool = sync.Pool
type Map = sync.Map
type Locker = sync.Locker

type waiter struct {
	ch     chan struct{}
	writer bool
	g      *simrt.G
}

type Mutex struct {
	real    sync.Mutex // used when the simulator is not active
	locked  bool
	owner   *simrt.G
	waiters []*waiter
}

//go:norace
func hold(g *simrt.G, m any) {
	if g != nil {
		g.Held = pushAny(g.Held, m)
	}
}

//go:norace
func unhold(g *simrt.G, m any) {
	if g != nil {
		for i := len(g.Held) - 1; i >= 0; i-- {
			if g.Held[i] == m {
				g.Held = dropAny(g.Held, i)
				return
			}
		}
	}
}

//go:norace
func (m *Mutex) Lock() {
	if !simrt.S.Active {
		m.real.Lock()
		return
	}
	simrt.Point("lock")
	g := simrt.Cur()
	if !m.locked {
		m.locked = true
		m.owner = g
		hold(g, m)
		simrt.RaceAcquire(unsafe.Pointer(m))
		return
	}
	w := &waiter{ch: make(chan struct{}), g: g}
	m.waiters = pushW(m.waiters, w)
	if g != nil {
		g.Tag = "mutex.Lock"
	}
	simrt.Block(w.ch)
	if g != nil {
		g.Tag = ""
	}
	simrt.RaceAcquire(unsafe.Pointer(m))
}

//go:norace
func (m *Mutex) TryLock() bool {
	if !simrt.S.Active {
		return m.real.TryLock()
	}
	simrt.Point("trylock")
	if m.locked {
		return false
	}
	m.locked = true
	m.owner = simrt.Cur()
	hold(m.owner, m)
	simrt.RaceAcquire(unsafe.Pointer(m))
	return true
}

//go:norace
func (m *Mutex) Unlock() {
	if !simrt.S.Active {
		m.real.Unlock()
		return
	}
	if !m.locked {
		panic("sync: unlock of unlocked mutex")
	}
	simrt.RaceRelease(unsafe.Pointer(m))
	unhold(m.owner, m)
	if n := len(m.waiters); n > 0 {
		i := simrt.Intn(n)
		w := m.waiters[i]
		m.waiters = dropW(m.waiters, i)
		m.owner = w.g
		hold(w.g, m)
		close(w.ch) // ownership handed over, stays locked
	} else {
		m.locked = false
		m.owner = nil
	}
	simrt.Point("unlock")
}

// Locked reports the shim state (harness use only).
//
//go:norace
func (m *Mutex) Locked() bool { return m.locked }

type RWMutex struct {
	real    sync.RWMutex
	writer  bool
	owner   *simrt.G
	readers int
	waiters []*waiter
}

//go:norace
func (m *RWMutex) writerWaiting() bool {
	for _, w := range m.waiters {
		if w.writer {
			return true
		}
	}
	return false
}

//go:norace
func (m *RWMutex) RLock() {
	if !simrt.S.Active {
		m.real.RLock()
		return
	}
	simrt.Point("rlock")
	g := simrt.Cur()
	if !m.writer && !m.writerWaiting() {
		m.readers++
		hold(g, m)
		simrt.RaceAcquire(unsafe.Pointer(m))
		return
	}
	w := &waiter{ch: make(chan struct{}), g: g}
	m.waiters = pushW(m.waiters, w)
	if g != nil {
		g.Tag = "rwmutex.RLock"
	}
	simrt.Block(w.ch)
	if g != nil {
		g.Tag = ""
	}
	simrt.RaceAcquire(unsafe.Pointer(m))
}

//go:norace
func (m *RWMutex) RUnlock() {
	if !simrt.S.Active {
		m.real.RUnlock()
		return
	}
	if m.readers <= 0 {
		panic("sync: RUnlock of unlocked RWMutex")
	}
	simrt.RaceReleaseMerge(unsafe.Pointer(&m.readers))
	m.readers--
	unhold(simrt.Cur(), m)
	m.release()
	simrt.Point("runlock")
}

//go:norace
func (m *RWMutex) Lock() {
	if !simrt.S.Active {
		m.real.Lock()
		return
	}
	simrt.Point("wlock")
	g := simrt.Cur()
	if !m.writer && m.readers == 0 {
		m.writer = true
		m.owner = g
		hold(g, m)
		simrt.RaceAcquire(unsafe.Pointer(m))
		simrt.RaceAcquire(unsafe.Pointer(&m.readers))
		return
	}
	w := &waiter{ch: make(chan struct{}), writer: true, g: g}
	m.waiters = pushW(m.waiters, w)
	if g != nil {
		g.Tag = "rwmutex.Lock"
	}
	simrt.Block(w.ch)
	if g != nil {
		g.Tag = ""
	}
	simrt.RaceAcquire(unsafe.Pointer(m))
	simrt.RaceAcquire(unsafe.Pointer(&m.readers))
}

//go:norace
func (m *RWMutex) Unlock() {
	if !simrt.S.Active {
		m.real.Unlock()
		return
	}
	if !m.writer {
		panic("sync: Unlock of unlocked RWMutex")
	}
	simrt.RaceRelease(unsafe.Pointer(m))
	m.writer = false
	unhold(m.owner, m)
	m.owner = nil
	m.release()
	simrt.Point("wunlock")
}

// release admits waiters that can proceed now.
//
//go:norace
func (m *RWMutex) release() {
	for len(m.waiters) > 0 && !m.writer {
		i := simrt.Intn(len(m.waiters))
		w := m.waiters[i]
		if w.writer {
			if m.readers != 0 {
				// a writer was picked but readers are still in: admit no one else (writer preference)
				return
			}
			m.writer = true
			m.owner = w.g
		} else {
			m.readers++
		}
		hold(w.g, m)
		m.waiters = dropW(m.waiters, i)
		close(w.ch)
	}
}

type WaitGroup struct {
	real    sync.WaitGroup
	n       int
	waiters []chan struct{}
}

//go:norace
func (wg *WaitGroup) Add(d int) {
	if !simrt.S.Active {
		wg.real.Add(d)
		return
	}
	if d < 0 {
		simrt.RaceReleaseMerge(unsafe.Pointer(wg))
	}
	wg.n += d
	if wg.n < 0 {
		panic("sync: negative WaitGroup counter")
	}
	if wg.n == 0 {
		for _, c := range wg.waiters {
			close(c)
		}
		wg.waiters = nil
	}
}

//go:norace
func (wg *WaitGroup) Done() {
	wg.Add(-1)
	if simrt.S.Active {
		simrt.Point("wgdone")
	}
}

//go:norace
func (wg *WaitGroup) Wait() {
	if !simrt.S.Active {
		wg.real.Wait()
		return
	}
	simrt.Point("wgwait")
	if wg.n == 0 {
		simrt.RaceAcquire(unsafe.Pointer(wg))
		return
	}
	c := make(chan struct{})
	wg.waiters = pushC(wg.waiters, c)
	g := simrt.Cur()
	if g != nil {
		g.Tag = "wg.Wait"
	}
	simrt.Block(c)
	if g != nil {
		g.Tag = ""
	}
	simrt.RaceAcquire(unsafe.Pointer(wg))
}

// Go mirrors sync.WaitGroup.Go (go1.25+); not used by gocoin today.
func (wg *WaitGroup) Go(f func()) {
	wg.Add(1)
	simrt.Go(func() {
		defer wg.Done()
		f()
	})
}

// Slice growth and copying go through runtime.growslice / slicecopy, which report their accesses to the race
// detector even when the caller is go:norace (and runtime.RaceDisable only mutes synchronisation events).  The
// simulator's own lists are therefore grown and shifted element by element, in uninstrumented code.

//go:norace
func pushAny(s []any, v any) []any {
	if len(s) < cap(s) {
		s = s[:len(s)+1]
		s[len(s)-1] = v
		return s
	}
	ns := make([]any, len(s)+1, 2*cap(s)+4)
	for i := range s {
		ns[i] = s[i]
	}
	ns[len(s)] = v
	return ns
}

//go:norace
func dropAny(s []any, i int) []any {
	for j := i; j+1 < len(s); j++ {
		s[j] = s[j+1]
	}
	s[len(s)-1] = nil
	return s[:len(s)-1]
}

//go:norace
func pushW(s []*waiter, v *waiter) []*waiter {
	if len(s) < cap(s) {
		s = s[:len(s)+1]
		s[len(s)-1] = v
		return s
	}
	ns := make([]*waiter, len(s)+1, 2*cap(s)+4)
	for i := range s {
		ns[i] = s[i]
	}
	ns[len(s)] = v
	return ns
}

//go:norace
func dropW(s []*waiter, i int) []*waiter {
	for j := i; j+1 < len(s); j++ {
		s[j] = s[j+1]
	}
	s[len(s)-1] = nil
	return s[:len(s)-1]
}

//go:norace
func pushC(s []chan struct{}, v chan struct{}) []chan struct{} {
	if len(s) < cap(s) {
		s = s[:len(s)+1]
		s[len(s)-1] = v
		return s
	}
	ns := make([]chan struct{}, len(s)+1, 2*cap(s)+4)
	for i := range s {
		ns[i] = s[i]
	}
	ns[len(s)] = v
	return ns
}
