// Package simnet is the simulated transport: a net.Conn whose Read is fed by a
// generator through a queue of (release time, bytes, optional error), and whose
// Write is captured.  Fragmentation, delays against the read deadline, resets
// at arbitrary bytes, write errors and write stalls are all decided by the
// caller's seeded choices; time is the bubble's fake clock.
package simnet

import (
	"errors"
	"net"
	"time"

	"verif/sim/simrt"
)

type timeoutErr struct{}

func (timeoutErr) Error() string   { return "i/o timeout (simulated)" }
func (timeoutErr) Timeout() bool   { return true }
func (timeoutErr) Temporary() bool { return true }

var ErrReset = errors.New("connection reset by peer (simulated)")
var ErrClosed = errors.New("use of closed connection (simulated)")
var ErrWrite = errors.New("write: broken pipe (simulated)")

type chunk struct {
	at   time.Time
	data []byte
	err  error
}

type addr string

func (a addr) Network() string { return "tcp" }
func (a addr) String() string  { return string(a) }

type Conn struct {
	in     []chunk
	wake   chan struct{}
	Sent   []byte
	Closed bool
	rdl    time.Time
	wdl    time.Time
	// FragMax: a Read returns at most 1+Intn(FragMax) bytes (0 = whole buffer)
	FragMax int
	// WriteErrAfter: the write that would make Sent exceed this many bytes fails (-1 = never)
	WriteErrAfter int
	// WriteStall: writes block until the write deadline and then time out
	WriteStall bool
	// OnRead is called at every Read entry by the reading goroutine.
	OnRead func()
	// Reads counts Read calls; TimedOut counts deadline expiries.
	Reads, TimedOut, Fragments int
	Remote                     string
}

// New must be called inside the bubble (it makes the wake-up channel).
func New(remote string) *Conn {
	return &Conn{wake: make(chan struct{}, 1), WriteErrAfter: -1, Remote: remote}
}

// Push queues data that becomes readable delay after the previous chunk's release time
// (or now), optionally followed by err (reset / EOF).
func (c *Conn) Push(delay time.Duration, data []byte, err error) {
	at := time.Now()
	if n := len(c.in); n > 0 && c.in[n-1].at.After(at) {
		at = c.in[n-1].at
	}
	at = at.Add(delay)
	c.in = append(c.in, chunk{at, append([]byte(nil), data...), err})
	select {
	case c.wake <- struct{}{}:
	default:
	}
}

// Abort drops whatever has not been read yet and makes the next Read fail with err at once (a reset by the
// peer discards the data still queued in the receive buffer).
func (c *Conn) Abort(err error) {
	c.in = []chunk{{time.Now(), nil, err}}
	select {
	case c.wake <- struct{}{}:
	default:
	}
}

// Pending reports how many queued bytes have not been read yet.
func (c *Conn) Pending() int {
	n := 0
	for _, ch := range c.in {
		n += len(ch.data)
	}
	return n
}

func (c *Conn) Read(b []byte) (int, error) {
	if c.OnRead != nil {
		c.OnRead()
	}
	c.Reads++
	for {
		simrt.Point("net")
		if c.Closed {
			return 0, ErrClosed
		}
		now := time.Now()
		if len(c.in) > 0 && !c.in[0].at.After(now) {
			ch := &c.in[0]
			if len(ch.data) == 0 {
				err := ch.err
				c.in = c.in[1:]
				if err != nil {
					return 0, err
				}
				continue
			}
			n := len(b)
			if n > len(ch.data) {
				n = len(ch.data)
			}
			if c.FragMax > 0 {
				if f := 1 + simrt.Intn(c.FragMax); f < n {
					n = f
					c.Fragments++
				}
			}
			copy(b, ch.data[:n])
			ch.data = ch.data[n:]
			if len(ch.data) == 0 && ch.err == nil {
				c.in = c.in[1:]
			}
			return n, nil
		}
		wait := time.Hour
		if !c.rdl.IsZero() {
			wait = c.rdl.Sub(now)
			if wait <= 0 {
				c.TimedOut++
				return 0, timeoutErr{}
			}
		}
		if len(c.in) > 0 {
			if d := c.in[0].at.Sub(now); d < wait {
				wait = d
			}
		}
		tm := time.NewTimer(wait)
		simrt.PreSelect()
		select {
		case <-c.wake:
		case <-tm.C:
		}
		tm.Stop()
		simrt.Woken()
	}
}

func (c *Conn) Write(b []byte) (int, error) {
	simrt.Point("net")
	if c.Closed {
		return 0, ErrClosed
	}
	if c.WriteStall {
		now := time.Now()
		wait := time.Hour
		if !c.wdl.IsZero() {
			wait = c.wdl.Sub(now)
		}
		if wait > 0 {
			simrt.Sleep(wait)
		}
		return 0, timeoutErr{}
	}
	if c.WriteErrAfter >= 0 && len(c.Sent)+len(b) > c.WriteErrAfter {
		n := c.WriteErrAfter - len(c.Sent)
		if n < 0 {
			n = 0
		}
		c.Sent = append(c.Sent, b[:n]...)
		return n, ErrWrite
	}
	c.Sent = append(c.Sent, b...)
	return len(b), nil
}

func (c *Conn) Close() error {
	c.Closed = true
	select {
	case c.wake <- struct{}{}:
	default:
	}
	return nil
}

func (c *Conn) LocalAddr() net.Addr                { return addr("10.0.0.1:8333") }
func (c *Conn) RemoteAddr() net.Addr               { return addr(c.Remote) }
func (c *Conn) SetDeadline(t time.Time) error      { c.rdl, c.wdl = t, t; return nil }
func (c *Conn) SetReadDeadline(t time.Time) error  { c.rdl = t; return nil }
func (c *Conn) SetWriteDeadline(t time.Time) error { c.wdl = t; return nil }
