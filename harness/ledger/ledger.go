// Package ledger is the reference model of the chain simulation: an
// independent block tree with exact cumulative work, a block validator written
// from the property statements C04/C05 and the Bitcoin rules (not from
// gocoin's code), and the UTXO set of any node as the replay of its branch.
//
// Script validity is NOT re-implemented: it is taken from the ground-truth
// label the generator attaches to every input (Tx.Valid).
package ledger

import (
	"bytes"
	"crypto/sha256"
	"encoding/binary"
	"math/big"
	"sort"

	"github.com/piotrnar/gocoin/lib/others/ripemd160"
)

// ---------------------------------------------------------------- hashing

func Sha256d(b []byte) (r [32]byte) {
	h := sha256.Sum256(b)
	return sha256.Sum256(h[:])
}

func Hash160(b []byte) (r [20]byte) {
	h := sha256.Sum256(b)
	rm := ripemd160.New()
	rm.Write(h[:])
	copy(r[:], rm.Sum(nil))
	return
}

func TaggedHash(tag string, parts ...[]byte) (r [32]byte) {
	th := sha256.Sum256([]byte(tag))
	h := sha256.New()
	h.Write(th[:])
	h.Write(th[:])
	for _, p := range parts {
		h.Write(p)
	}
	copy(r[:], h.Sum(nil))
	return
}

// ---------------------------------------------------------------- serialisation

func PutVarInt(b *bytes.Buffer, v uint64) {
	switch {
	case v < 0xfd:
		b.WriteByte(byte(v))
	case v <= 0xffff:
		b.WriteByte(0xfd)
		binary.Write(b, binary.LittleEndian, uint16(v))
	case v <= 0xffffffff:
		b.WriteByte(0xfe)
		binary.Write(b, binary.LittleEndian, uint32(v))
	default:
		b.WriteByte(0xff)
		binary.Write(b, binary.LittleEndian, v)
	}
}

func le32(v uint32) []byte { var b [4]byte; binary.LittleEndian.PutUint32(b[:], v); return b[:] }
func le64(v uint64) []byte { var b [8]byte; binary.LittleEndian.PutUint64(b[:], v); return b[:] }

type OutPoint struct {
	Hash [32]byte
	N    uint32
}

type TxIn struct {
	Prev      OutPoint
	ScriptSig []byte
	Seq       uint32
	Wit       [][]byte
}

type TxOut struct {
	Value uint64
	Pk    []byte
}

type Tx struct {
	Ver  uint32
	In   []TxIn
	Out  []TxOut
	Lock uint32
	// Valid[i] is the generator's ground truth for input i's script (nil = all valid).
	Valid []bool
	// ForceWitnessFlag serialises with marker/flag although no input has a witness (never valid).
	id, wid *[32]byte
}

func (t *Tx) HasWitness() bool {
	for i := range t.In {
		if len(t.In[i].Wit) > 0 {
			return true
		}
	}
	return false
}

func (t *Tx) Bytes(withWit bool) []byte {
	var b bytes.Buffer
	b.Write(le32(t.Ver))
	wit := withWit && t.HasWitness()
	if wit {
		b.WriteByte(0)
		b.WriteByte(1)
	}
	PutVarInt(&b, uint64(len(t.In)))
	for i := range t.In {
		in := &t.In[i]
		b.Write(in.Prev.Hash[:])
		b.Write(le32(in.Prev.N))
		PutVarInt(&b, uint64(len(in.ScriptSig)))
		b.Write(in.ScriptSig)
		b.Write(le32(in.Seq))
	}
	PutVarInt(&b, uint64(len(t.Out)))
	for i := range t.Out {
		b.Write(le64(t.Out[i].Value))
		PutVarInt(&b, uint64(len(t.Out[i].Pk)))
		b.Write(t.Out[i].Pk)
	}
	if wit {
		for i := range t.In {
			PutVarInt(&b, uint64(len(t.In[i].Wit)))
			for _, w := range t.In[i].Wit {
				PutVarInt(&b, uint64(len(w)))
				b.Write(w)
			}
		}
	}
	b.Write(le32(t.Lock))
	return b.Bytes()
}

func (t *Tx) Touch() { t.id, t.wid = nil, nil }

func (t *Tx) ID() [32]byte {
	if t.id == nil {
		h := Sha256d(t.Bytes(false))
		t.id = &h
	}
	return *t.id
}

func (t *Tx) WID() [32]byte {
	if t.wid == nil {
		h := Sha256d(t.Bytes(true))
		t.wid = &h
	}
	return *t.wid
}

func (t *Tx) Weight() int { return 3*len(t.Bytes(false)) + len(t.Bytes(true)) }

func (t *Tx) IsCoinbase() bool {
	return len(t.In) == 1 && t.In[0].Prev.N == 0xffffffff && t.In[0].Prev.Hash == [32]byte{}
}

func (t *Tx) InputValid(i int) bool { return t.Valid == nil || i >= len(t.Valid) || t.Valid[i] }

type Header struct {
	Ver    uint32
	Prev   [32]byte
	Merkle [32]byte
	Time   uint32
	Bits   uint32
	Nonce  uint32
}

func (h *Header) Bytes() []byte {
	var b bytes.Buffer
	b.Write(le32(h.Ver))
	b.Write(h.Prev[:])
	b.Write(h.Merkle[:])
	b.Write(le32(h.Time))
	b.Write(le32(h.Bits))
	b.Write(le32(h.Nonce))
	return b.Bytes()
}

func (h *Header) Hash() [32]byte { return Sha256d(h.Bytes()) }

type Block struct {
	H   Header
	Txs []*Tx
	// RawOverride, when set, is what is delivered instead of the canonical
	// serialisation (used for structurally malformed blocks, e.g. 80 bytes).
	RawOverride []byte
	RawClause   string // the clause RawOverride violates ("" = block-length)
	// Label is the generator's note about what (if anything) is wrong with it.
	Label string
}

func (b *Block) Bytes() []byte {
	if b.RawOverride != nil {
		return b.RawOverride
	}
	var w bytes.Buffer
	w.Write(b.H.Bytes())
	PutVarInt(&w, uint64(len(b.Txs)))
	for _, t := range b.Txs {
		w.Write(t.Bytes(true))
	}
	return w.Bytes()
}

func (b *Block) Hash() [32]byte { return b.H.Hash() }

func (b *Block) Weight() int {
	var n bytes.Buffer
	PutVarInt(&n, uint64(len(b.Txs)))
	w := (80 + n.Len()) * 4
	for _, t := range b.Txs {
		w += t.Weight()
	}
	return w
}

// MerkleRoot returns the root over the given leaves and whether the tree
// contains a duplicated pair (CVE-2012-2459 mutation).
func MerkleRoot(leaves [][32]byte) (root [32]byte, mutated bool) {
	if len(leaves) == 0 {
		return
	}
	lvl := append([][32]byte(nil), leaves...)
	for len(lvl) > 1 {
		for i := 0; i+1 < len(lvl); i += 2 {
			if lvl[i] == lvl[i+1] {
				mutated = true
			}
		}
		if len(lvl)%2 == 1 {
			lvl = append(lvl, lvl[len(lvl)-1])
		}
		nxt := make([][32]byte, 0, len(lvl)/2)
		for i := 0; i < len(lvl); i += 2 {
			nxt = append(nxt, Sha256d(append(append([]byte{}, lvl[i][:]...), lvl[i+1][:]...)))
		}
		lvl = nxt
	}
	return lvl[0], mutated
}

func (b *Block) TxMerkle() ([32]byte, bool) {
	ids := make([][32]byte, len(b.Txs))
	for i, t := range b.Txs {
		ids[i] = t.ID()
	}
	return MerkleRoot(ids)
}

func (b *Block) WitnessMerkle() [32]byte {
	ids := make([][32]byte, len(b.Txs))
	for i, t := range b.Txs {
		if i > 0 {
			ids[i] = t.WID()
		}
	}
	r, _ := MerkleRoot(ids)
	return r
}

var commitHdr = []byte{0x6a, 0x24, 0xaa, 0x21, 0xa9, 0xed}

// ---------------------------------------------------------------- difficulty

// CompactToBig decodes nBits; neg/overflow as in Bitcoin's arith_uint256::SetCompact.
func CompactToBig(c uint32) (v *big.Int, neg, overflow bool) {
	size := c >> 24
	word := c & 0x007fffff
	v = new(big.Int)
	if size <= 3 {
		word >>= 8 * (3 - size)
		v.SetUint64(uint64(word))
	} else {
		v.SetUint64(uint64(word))
		v.Lsh(v, uint(8*(size-3)))
	}
	neg = word != 0 && (c&0x00800000) != 0
	overflow = word != 0 && (size > 34 || (word > 0xff && size > 33) || (word > 0xffff && size > 32))
	return
}

func BigToCompact(v *big.Int) uint32 {
	size := uint32((v.BitLen() + 7) / 8)
	var c uint32
	if size <= 3 {
		c = uint32(v.Uint64() << (8 * (3 - size)))
	} else {
		t := new(big.Int).Rsh(v, uint(8*(size-3)))
		c = uint32(t.Uint64())
	}
	if c&0x00800000 != 0 {
		c >>= 8
		size++
	}
	return c | size<<24
}

// 2^256 with 40 fractional bits: the work of a block is the expected number of hashes 2^256/(target+1) as a
// (practically) real number.  Bitcoin Core floors this quotient per block; with the tiny toy targets used here
// the dropped fractions (2.0000002 -> 2) would turn "slightly more work" into a tie, which no node that sums
// difficulties - as gocoin does, in float64 - can or needs to reproduce.  Units: 2^-40 hashes.
var two256 = new(big.Int).Lsh(big.NewInt(1), 256+40)

// Work of one block with the given bits: 2^256 / (target+1), in units of 2^-40.
func Work(bits uint32) *big.Int {
	t, neg, ovf := CompactToBig(bits)
	if neg || ovf || t.Sign() == 0 {
		return new(big.Int)
	}
	return new(big.Int).Div(two256, new(big.Int).Add(t, big.NewInt(1)))
}

// ---------------------------------------------------------------- parameters and tree

type Params struct {
	PowLimitBits   uint32
	GenesisTime    uint32
	BIP34Height    uint32
	BIP65Height    uint32
	BIP66Height    uint32
	CSVHeight      uint32 // 0 = never
	SegwitHeight   uint32
	TaprootHeight  uint32
	Testnet        bool // 20-minute min-difficulty rule
	Maturity       uint32
	RetargetBlocks uint32
}

type Coin struct {
	Value    uint64
	Pk       []byte
	Height   uint32
	Coinbase bool
}

type Node struct {
	Hash    [32]byte
	Parent  *Node
	Height  uint32
	Blk     *Block
	Time    uint32
	Bits    uint32
	CumWork *big.Int
	Clause  string // "" = valid in context (and all ancestors valid); else first violated clause
	AncBad  bool   // an ancestor is invalid
	utxo    map[OutPoint]Coin
	Kids    []*Node
	Seq     int // creation order
}

type Ledger struct {
	P       Params
	Genesis *Node
	Nodes   map[[32]byte]*Node
	seq     int
}

func New(p Params, genesisHash [32]byte) *Ledger {
	if p.Maturity == 0 {
		p.Maturity = 100
	}
	if p.RetargetBlocks == 0 {
		p.RetargetBlocks = 2016
	}
	g := &Node{Hash: genesisHash, Time: p.GenesisTime, Bits: p.PowLimitBits, CumWork: new(big.Int), utxo: map[OutPoint]Coin{}}
	return &Ledger{P: p, Genesis: g, Nodes: map[[32]byte]*Node{genesisHash: g}}
}

func (n *Node) MTP() uint32 {
	var ts []int
	for p, i := n, 0; p != nil && i < 11; p, i = p.Parent, i+1 {
		ts = append(ts, int(p.Time))
	}
	sort.Ints(ts)
	return uint32(ts[len(ts)/2])
}

func (n *Node) Ancestor(h uint32) *Node {
	p := n
	for p != nil && p.Height > h {
		p = p.Parent
	}
	return p
}

// Valid reports whether the node and all its ancestors are valid.
func (n *Node) Valid() bool { return n.Clause == "" && !n.AncBad }

// UTXO of the chain ending in n (only meaningful for valid nodes).
func (n *Node) UTXO() map[OutPoint]Coin { return n.utxo }

// ExpectedBits is the retargeting rule for the child of parent with the given timestamp.
func (l *Ledger) ExpectedBits(parent *Node, ts uint32) uint32 {
	p := l.P
	h := parent.Height + 1
	if h%p.RetargetBlocks != 0 {
		if p.Testnet {
			if ts > parent.Time+20*60 {
				return p.PowLimitBits
			}
			q := parent
			for q.Parent != nil && q.Height%p.RetargetBlocks != 0 && q.Bits == p.PowLimitBits {
				q = q.Parent
			}
			return q.Bits
		}
		return parent.Bits
	}
	first := parent.Ancestor(parent.Height - (p.RetargetBlocks - 1))
	span := int64(parent.Time) - int64(first.Time)
	const two_weeks = 14 * 24 * 60 * 60
	if span < two_weeks/4 {
		span = two_weeks / 4
	}
	if span > two_weeks*4 {
		span = two_weeks * 4
	}
	t, _, _ := CompactToBig(parent.Bits)
	t.Mul(t, big.NewInt(span))
	t.Div(t, big.NewInt(two_weeks))
	lim, _, _ := CompactToBig(p.PowLimitBits)
	if t.Cmp(lim) > 0 {
		t = lim
	}
	return BigToCompact(t)
}

func Subsidy(height uint32) uint64 {
	halvings := height / 210000
	if halvings >= 64 {
		return 0
	}
	return uint64(50*100000000) >> halvings
}

const MaxMoney = 21000000 * 100000000

// HeightScript is the BIP34 coinbase prefix.
func HeightScript(h uint32) []byte {
	if h == 0 {
		return []byte{0x00}
	}
	if h <= 16 {
		return []byte{byte(0x50 + h)}
	}
	var b []byte
	v := h
	for v > 0 {
		b = append(b, byte(v))
		v >>= 8
	}
	if b[len(b)-1]&0x80 != 0 {
		b = append(b, 0)
	}
	return append([]byte{byte(len(b))}, b...)
}

// ---------------------------------------------------------------- sigops

// scriptOps iterates opcodes; returns false on a truncated push.
func scriptOps(s []byte, f func(op byte, data []byte) bool) bool {
	for i := 0; i < len(s); {
		op := s[i]
		i++
		var n int
		switch {
		case op < 0x4c:
			n = int(op)
		case op == 0x4c:
			if i+1 > len(s) {
				return false
			}
			n = int(s[i])
			i++
		case op == 0x4d:
			if i+2 > len(s) {
				return false
			}
			n = int(binary.LittleEndian.Uint16(s[i:]))
			i += 2
		case op == 0x4e:
			if i+4 > len(s) {
				return false
			}
			n = int(binary.LittleEndian.Uint32(s[i:]))
			i += 4
		}
		if n < 0 || i+n > len(s) {
			return false
		}
		if !f(op, s[i:i+n]) {
			return true
		}
		i += n
	}
	return true
}

// SigOps counts like Bitcoin's CScript::GetSigOpCount.
func SigOps(s []byte, accurate bool) int {
	n := 0
	last := byte(0xff)
	scriptOps(s, func(op byte, _ []byte) bool {
		switch op {
		case 0xac, 0xad:
			n++
		case 0xae, 0xaf:
			if accurate && last >= 0x51 && last <= 0x60 {
				n += int(last - 0x50)
			} else {
				n += 20
			}
		}
		last = op
		return true
	})
	return n
}

func isP2SH(pk []byte) bool {
	return len(pk) == 23 && pk[0] == 0xa9 && pk[1] == 0x14 && pk[22] == 0x87
}

func witnessProgram(pk []byte) (ver int, prog []byte, ok bool) {
	if len(pk) < 4 || len(pk) > 42 {
		return
	}
	if pk[0] != 0 && (pk[0] < 0x51 || pk[0] > 0x60) {
		return
	}
	if int(pk[1])+2 != len(pk) || pk[1] < 2 || pk[1] > 40 {
		return
	}
	ver = 0
	if pk[0] != 0 {
		ver = int(pk[0] - 0x50)
	}
	return ver, pk[2:], true
}

func lastPush(s []byte) (d []byte, pushOnly bool) {
	pushOnly = true
	ok := scriptOps(s, func(op byte, data []byte) bool {
		if op > 0x60 {
			pushOnly = false
			return false
		}
		d = data
		return true
	})
	if !ok {
		pushOnly = false
	}
	return
}

func witnessSigOps(ver int, prog []byte, wit [][]byte) int {
	if ver == 0 {
		if len(prog) == 20 {
			return 1
		}
		if len(prog) == 32 && len(wit) > 0 {
			return SigOps(wit[len(wit)-1], true)
		}
	}
	return 0
}

// SigOpCost of a transaction given the coins it spends (BIP141).
func SigOpCost(t *Tx, spent []Coin, p2sh, segwit bool) int {
	n := 0
	for i := range t.In {
		n += SigOps(t.In[i].ScriptSig, false)
	}
	for i := range t.Out {
		n += SigOps(t.Out[i].Pk, false)
	}
	n *= 4
	if t.IsCoinbase() {
		return n
	}
	for i := range t.In {
		pk := spent[i].Pk
		if p2sh && isP2SH(pk) {
			if rs, po := lastPush(t.In[i].ScriptSig); po {
				n += 4 * SigOps(rs, true)
			}
		}
		if segwit {
			if v, prog, ok := witnessProgram(pk); ok {
				n += witnessSigOps(v, prog, t.In[i].Wit)
			} else if isP2SH(pk) {
				if rs, po := lastPush(t.In[i].ScriptSig); po && rs != nil {
					if v, prog, ok := witnessProgram(rs); ok {
						n += witnessSigOps(v, prog, t.In[i].Wit)
					}
				}
			}
		}
	}
	return n
}

// ---------------------------------------------------------------- validation

// SequenceLocksMet: do the relative lock-times (BIP68) of t, spending coins (one per input, Height = confirmation
// height), allow it in a block at height built on parent?  (Only meaningful where CSV is active.)
func (l *Ledger) SequenceLocksMet(t *Tx, coins []Coin, height uint32, parent *Node) bool {
	if t.Ver < 2 {
		return true
	}
	mtp := parent.MTP()
	for i := range t.In {
		seq := t.In[i].Seq
		if seq&(1<<31) != 0 {
			continue
		}
		c := coins[i]
		if seq&(1<<22) != 0 {
			base := l.Genesis.MTP()
			if c.Height >= 1 {
				if a := parent.Ancestor(c.Height - 1); a != nil {
					base = a.MTP()
				}
			}
			if int64(base)+int64(seq&0xffff)<<9-1 >= int64(mtp) {
				return false
			}
		} else if int64(c.Height)+int64(seq&0xffff)-1 >= int64(height) {
			return false
		}
	}
	return true
}

// IsFinal: may t be part of a block at height whose lock-time cutoff (median time past of its parent) is cutoff.
func IsFinal(t *Tx, height uint32, cutoff uint32) bool { return isFinal(t, height, cutoff) }

func isFinal(t *Tx, height uint32, cutoff uint32) bool {
	if t.Lock == 0 {
		return true
	}
	lim := cutoff
	if t.Lock < 500000000 {
		lim = height
	}
	if t.Lock < lim {
		return true
	}
	for i := range t.In {
		if t.In[i].Seq != 0xffffffff {
			return false
		}
	}
	return true
}

// checkTx: context-free transaction rules.
func checkTx(t *Tx) string {
	if len(t.In) == 0 {
		return "tx-no-inputs"
	}
	if len(t.Out) == 0 {
		return "tx-no-outputs"
	}
	if len(t.Bytes(false))*4 > 4000000 {
		return "tx-oversize"
	}
	var sum uint64
	for i := range t.Out {
		v := t.Out[i].Value
		if v > MaxMoney {
			return "value-out-of-range"
		}
		sum += v
		if sum > MaxMoney {
			return "value-sum-out-of-range"
		}
	}
	seen := map[OutPoint]bool{}
	for i := range t.In {
		if seen[t.In[i].Prev] {
			return "tx-duplicate-input"
		}
		seen[t.In[i].Prev] = true
	}
	if t.IsCoinbase() {
		if n := len(t.In[0].ScriptSig); n < 2 || n > 100 {
			return "coinbase-script-length"
		}
	} else {
		for i := range t.In {
			if t.In[i].Prev.N == 0xffffffff && t.In[i].Prev.Hash == [32]byte{} {
				return "tx-null-prevout"
			}
		}
	}
	return ""
}

// Check returns "" if blk is a valid child of parent at local time now, else
// the id of a violated clause.  It also returns the UTXO set after the block.
func (l *Ledger) Check(parent *Node, blk *Block, now int64) (clause string, utxo map[OutPoint]Coin) {
	p := l.P
	raw := blk.Bytes()
	if len(raw) < 81 || blk.RawOverride != nil {
		if blk.RawClause != "" {
			return blk.RawClause, nil
		}
		return "block-length", nil
	}
	h := blk.H
	height := parent.Height + 1
	// proof of work
	target, neg, ovf := CompactToBig(h.Bits)
	lim, _, _ := CompactToBig(p.PowLimitBits)
	if neg || ovf || target.Sign() == 0 || target.Cmp(lim) > 0 {
		return "bits-encoding", nil
	}
	hh := blk.Hash()
	var be [32]byte
	for i := range hh {
		be[31-i] = hh[i]
	}
	if new(big.Int).SetBytes(be[:]).Cmp(target) > 0 {
		return "high-hash", nil
	}
	if int64(h.Time) > now+2*60*60 {
		return "time-too-new", nil
	}
	if h.Bits != l.ExpectedBits(parent, h.Time) {
		return "bad-diffbits", nil
	}
	mtp := parent.MTP()
	if h.Time <= mtp {
		return "time-too-old", nil
	}
	if (h.Ver < 2 && height >= p.BIP34Height) || (h.Ver < 3 && height >= p.BIP66Height) || (h.Ver < 4 && height >= p.BIP65Height) || int32(h.Ver) < 1 {
		return "bad-version", nil
	}
	// structure
	if len(blk.Txs) == 0 || !blk.Txs[0].IsCoinbase() {
		return "first-not-coinbase", nil
	}
	for _, t := range blk.Txs[1:] {
		if t.IsCoinbase() {
			return "multiple-coinbase", nil
		}
	}
	for _, t := range blk.Txs {
		if c := checkTx(t); c != "" {
			return c, nil
		}
	}
	if height >= p.BIP34Height {
		if !bytes.HasPrefix(blk.Txs[0].In[0].ScriptSig, HeightScript(height)) {
			return "bad-cb-height", nil
		}
	}
	csv := p.CSVHeight != 0 && height >= p.CSVHeight
	cutoff := h.Time
	if csv {
		cutoff = mtp
	}
	for _, t := range blk.Txs {
		if !isFinal(t, height, cutoff) {
			return "non-final", nil
		}
	}
	root, mutated := blk.TxMerkle()
	if mutated {
		return "merkle-mutated", nil
	}
	if root != h.Merkle {
		return "bad-merkle-root", nil
	}
	segwit := p.SegwitHeight != 0 && height >= p.SegwitHeight
	commit := -1
	if segwit {
		cb := blk.Txs[0]
		for i := len(cb.Out) - 1; i >= 0; i-- {
			if len(cb.Out[i].Pk) >= 38 && bytes.Equal(cb.Out[i].Pk[:6], commitHdr) {
				commit = i
				break
			}
		}
		if commit >= 0 {
			if len(cb.In[0].Wit) != 1 || len(cb.In[0].Wit[0]) != 32 {
				return "witness-nonce-size", nil
			}
			wr := blk.WitnessMerkle()
			want := Sha256d(append(append([]byte{}, wr[:]...), cb.In[0].Wit[0]...))
			if !bytes.Equal(want[:], cb.Out[commit].Pk[6:38]) {
				return "witness-merkle-mismatch", nil
			}
		}
	}
	if commit < 0 {
		for _, t := range blk.Txs {
			if t.HasWitness() {
				return "unexpected-witness", nil
			}
		}
	}
	if blk.Weight() > 4000000 {
		return "weight", nil
	}
	// contextual: inputs
	view := make(map[OutPoint]Coin, len(parent.utxo)+16)
	for k, v := range parent.utxo {
		view[k] = v
	}
	var fees uint64
	sigops := 0
	p2sh := true
	for ti, t := range blk.Txs {
		id := t.ID()
		var spent []Coin
		if ti > 0 {
			var insum uint64
			for i := range t.In {
				c, ok := view[t.In[i].Prev]
				if !ok {
					return "missing-or-spent-input", nil
				}
				if c.Coinbase && height-c.Height < p.Maturity {
					return "immature-coinbase", nil
				}
				spent = append(spent, c)
				insum += c.Value
				if insum > MaxMoney || c.Value > MaxMoney {
					return "input-value-out-of-range", nil
				}
			}
			// BIP68
			if csv && t.Ver >= 2 {
				for i := range t.In {
					seq := t.In[i].Seq
					if seq&(1<<31) != 0 {
						continue
					}
					c := spent[i]
					if seq&(1<<22) != 0 {
						// time based: coin's block's predecessor MTP + (n<<9) must be <= mtp of parent ... (lock satisfied when < block's MTP)
						var base uint32
						if c.Height >= 1 {
							base = parent.Ancestor(c.Height - 1).MTP()
						} else {
							base = l.Genesis.MTP()
						}
						lockTime := int64(base) + int64(seq&0xffff)<<9 - 1
						if lockTime >= int64(mtp) {
							return "bip68-time", nil
						}
					} else {
						lockHeight := int64(c.Height) + int64(seq&0xffff) - 1
						if lockHeight >= int64(height) {
							return "bip68-height", nil
						}
					}
				}
			}
			for i := range t.In {
				if !t.InputValid(i) {
					return "script", nil
				}
			}
			var outsum uint64
			for i := range t.Out {
				outsum += t.Out[i].Value
			}
			if outsum > insum {
				return "outputs-exceed-inputs", nil
			}
			fees += insum - outsum
			for i := range t.In {
				delete(view, t.In[i].Prev)
			}
		}
		sigops += SigOpCost(t, spent, p2sh, segwit)
		for i := range t.Out {
			view[OutPoint{id, uint32(i)}] = Coin{t.Out[i].Value, t.Out[i].Pk, height, ti == 0}
		}
	}
	var cbout uint64
	for i := range blk.Txs[0].Out {
		cbout += blk.Txs[0].Out[i].Value
	}
	if cbout > Subsidy(height)+fees {
		return "coinbase-too-much", nil
	}
	if sigops > 80000 {
		return "sigops", nil
	}
	return "", view
}

// Add inserts blk below its parent (which must be known) and judges it.
func (l *Ledger) Add(blk *Block, now int64) *Node {
	hh := blk.Hash()
	if n, ok := l.Nodes[hh]; ok {
		return n
	}
	par := l.Nodes[blk.H.Prev]
	if par == nil {
		return nil
	}
	l.seq++
	n := &Node{Hash: hh, Parent: par, Height: par.Height + 1, Blk: blk, Time: blk.H.Time, Bits: blk.H.Bits, Seq: l.seq}
	n.CumWork = new(big.Int).Add(par.CumWork, Work(blk.H.Bits))
	if !par.Valid() {
		n.AncBad = true
		// still judge the context-free part for the record
		n.Clause = "parent-invalid"
	} else {
		n.Clause, n.utxo = l.Check(par, blk, now)
	}
	par.Kids = append(par.Kids, n)
	l.Nodes[hh] = n
	return n
}

// AddTrusted inserts a coinbase-only block that is known to be valid (a block of a fixed, once-validated
// prefix) without judging it again.  Unless keepParent is set the parent's unspent map is handed over to the
// child instead of being copied, so that a prefix of thousands of blocks costs linear, not quadratic, work;
// the parent then has no unspent map of its own (nothing may fork from it or recover to it).
func (l *Ledger) AddTrusted(blk *Block, keepParent bool) *Node {
	hh := blk.Hash()
	if n, ok := l.Nodes[hh]; ok {
		return n
	}
	par := l.Nodes[blk.H.Prev]
	if par == nil || par.utxo == nil || len(blk.Txs) != 1 {
		return nil
	}
	l.seq++
	n := &Node{Hash: hh, Parent: par, Height: par.Height + 1, Blk: blk, Time: blk.H.Time, Bits: blk.H.Bits, Seq: l.seq}
	n.CumWork = new(big.Int).Add(par.CumWork, Work(blk.H.Bits))
	if keepParent {
		n.utxo = make(map[OutPoint]Coin, len(par.utxo)+4)
		for k, v := range par.utxo {
			n.utxo[k] = v
		}
	} else {
		n.utxo, par.utxo = par.utxo, nil
	}
	t := blk.Txs[0]
	id := t.ID()
	for i := range t.Out {
		n.utxo[OutPoint{id, uint32(i)}] = Coin{t.Out[i].Value, t.Out[i].Pk, n.Height, true}
	}
	par.Kids = append(par.Kids, n)
	l.Nodes[hh] = n
	return n
}

// Recheck re-evaluates a node whose verdict depended on the clock.
func (l *Ledger) Recheck(n *Node, now int64) {
	if n.Parent != nil && n.Parent.Valid() {
		n.AncBad = false
		n.Clause, n.utxo = l.Check(n.Parent, n.Blk, now)
	}
}
