package ledger

// The simulated miner and transaction generator.  Everything here selects
// coins from the LEDGER's view, never from gocoin's.

import (
	"fmt"
	"bytes"
	"math/big"
	"sort"
)

// Rand is the subset of hx.Rng the generator needs (avoids an import cycle).
type Rand interface {
	Intn(n int) int
	Range(lo, hi int) int
	Chance(p float64) bool
	Float() float64
	Pick(weights ...int) int
	U64() uint64
	Bytes(n int) []byte
}

// Grind finds a nonce satisfying the block's own bits.
func Grind(h *Header) {
	t, _, _ := CompactToBig(h.Bits)
	for n := 0; ; n++ {
		hh := h.Hash()
		var be [32]byte
		for i := range hh {
			be[31-i] = hh[i]
		}
		if new(big.Int).SetBytes(be[:]).Cmp(t) <= 0 {
			return
		}
		h.Nonce++
		if n == 1<<22 {
			panic(fmt.Sprintf("Grind: target of bits %08x is out of reach for a simulated miner", h.Bits))
		}
	}
}

// GrindAbove finds a nonce whose hash is ABOVE the target (for the high-hash violation).
func GrindAbove(h *Header) {
	t, _, _ := CompactToBig(h.Bits)
	for {
		hh := h.Hash()
		var be [32]byte
		for i := range hh {
			be[31-i] = hh[i]
		}
		if new(big.Int).SetBytes(be[:]).Cmp(t) > 0 {
			return
		}
		h.Nonce++
	}
}

// GrindJustAbove finds a nonce whose hash is above the target but at most twice the target (as many significant
// bytes as the target has, or one more).
func GrindJustAbove(h *Header) {
	t, _, _ := CompactToBig(h.Bits)
	t2 := new(big.Int).Lsh(t, 1)
	for n := 0; n < 1<<22; n++ {
		hh := h.Hash()
		var be [32]byte
		for i := range hh {
			be[31-i] = hh[i]
		}
		v := new(big.Int).SetBytes(be[:])
		if v.Cmp(t) > 0 && v.Cmp(t2) <= 0 {
			return
		}
		h.Nonce++
	}
	GrindAbove(h)
}

type Miner struct {
	L *Ledger
	W *Wallet
	R Rand
	// kinds of outputs the generator may create (activation dependent)
	extra uint32
	ZeroValueOutputs bool // some transactions carry an extra output of value 0 to a wallet address
}

// outKinds returns the spendable output kinds allowed at the given height.
func (m *Miner) outKinds(height uint32) []int {
	k := []int{KP2PKH, KTrue, KP2SHTrue}
	p := m.L.P
	if p.SegwitHeight != 0 && height >= p.SegwitHeight {
		k = append(k, KP2WPKH, KP2SHWPKH, KP2WSHTrue)
	}
	if p.TaprootHeight != 0 && height >= p.TaprootHeight {
		k = append(k, KP2TR)
	}
	return k
}

// spendableAt: is a coin of this script kind safely judged when spent at height?
func (m *Miner) spendableAt(kind int, height uint32) bool {
	p := m.L.P
	switch kind {
	case KP2WPKH, KP2SHWPKH, KP2WSHTrue, KWshMultiSep:
		return p.SegwitHeight != 0 && height >= p.SegwitHeight
	case KP2TR, KP2TRS:
		return p.TaprootHeight != 0 && height >= p.TaprootHeight
	}
	return true
}

// txOutKinds: what transactions (not coinbases: the fixed prefix stays as it is) pay to.
func (m *Miner) txOutKinds(height uint32) []int {
	k := append(m.outKinds(height), KMultiSep, KP2SHZeroMulti)
	if p := m.L.P; p.SegwitHeight != 0 && height >= p.SegwitHeight {
		k = append(k, KWshMultiSep)
	}
	if p := m.L.P; p.TaprootHeight != 0 && height >= p.TaprootHeight {
		k = append(k, KP2TRS)
	}
	return k
}

// Coinbase builds the coinbase of a block at height paying total to nOut outputs.
func (m *Miner) Coinbase(height uint32, total uint64, nOut int, extraNonce uint32) *Tx {
	ss := append([]byte{}, HeightScript(height)...)
	ss = append(ss, push([]byte{byte(extraNonce), byte(extraNonce >> 8), byte(extraNonce >> 16), 0x2f})...)
	t := &Tx{Ver: 1, In: []TxIn{{Prev: OutPoint{N: 0xffffffff}, ScriptSig: ss, Seq: 0xffffffff}}}
	kinds := m.outKinds(height)
	if nOut < 1 {
		nOut = 1
	}
	rem := total
	for i := 0; i < nOut; i++ {
		v := rem / uint64(nOut-i)
		if i < nOut-1 && v > 1000 {
			v = v/2 + uint64(m.R.Intn(int(v/2)))
		}
		rem -= v
		t.Out = append(t.Out, TxOut{v, m.W.Script(kinds[m.R.Intn(len(kinds))], m.R.Intn(m.W.NKeys()))})
	}
	return t
}

// Finish sets merkle root, witness commitment (if needed), and grinds.
func (m *Miner) Finish(parent *Node, b *Block) {
	p := m.L.P
	height := parent.Height + 1
	needCommit := false
	for _, t := range b.Txs[1:] {
		if t.HasWitness() {
			needCommit = true
		}
	}
	if needCommit && p.SegwitHeight != 0 && height >= p.SegwitHeight {
		SetCommitment(b)
	}
	b.H.Merkle, _ = b.TxMerkle()
	Grind(&b.H)
}

// SetCommitment (re)writes the BIP141 commitment output and nonce of the coinbase.
func SetCommitment(b *Block) {
	cb := b.Txs[0]
	nonce := make([]byte, 32)
	cb.In[0].Wit = [][]byte{nonce}
	// drop an existing commitment output
	var outs []TxOut
	for _, o := range cb.Out {
		if !(len(o.Pk) >= 38 && bytes.Equal(o.Pk[:6], commitHdr)) {
			outs = append(outs, o)
		}
	}
	cb.Out = outs
	cb.Touch()
	wr := b.WitnessMerkle()
	c := Sha256d(append(append([]byte{}, wr[:]...), nonce...))
	cb.Out = append(cb.Out, TxOut{0, append(append([]byte{}, commitHdr...), c[:]...)})
	cb.Touch()
}

// CoinRef is a spendable coin in some view.
type CoinRef struct {
	Op   OutPoint
	Coin Coin
}

// Spendables lists the coins of view that the wallet can spend at height (deterministic order).
func (m *Miner) Spendables(view map[OutPoint]Coin, height uint32, used map[OutPoint]bool) []CoinRef {
	var res []CoinRef
	for op, c := range view {
		if used[op] {
			continue
		}
		kind, ok := m.W.Spendable(c.Pk)
		if !ok || !m.spendableAt(kind, height) {
			continue
		}
		if c.Coinbase && height-c.Height < m.L.P.Maturity {
			continue
		}
		if c.Value < 2000 {
			continue
		}
		res = append(res, CoinRef{op, c})
	}
	sortRefs(res)
	return res
}

func sortRefs(r []CoinRef) {
	sort.Slice(r, func(i, j int) bool { return lessOp(r[i].Op, r[j].Op) })
}

func lessOp(a, b OutPoint) bool {
	c := bytes.Compare(a.Hash[:], b.Hash[:])
	if c != 0 {
		return c < 0
	}
	return a.N < b.N
}

var hashTypes = []byte{SigAll, SigAll, SigAll, SigNone, SigSingle, SigAll | SigACP, SigNone | SigACP, SigSingle | SigACP}

// MakeTx spends the given coins into nOut outputs (fee taken from the total) and signs.
// corrupt applies to input corruptIdx only.
func (m *Miner) MakeTx(height uint32, ins []CoinRef, nOut int, fee uint64, corruptIdx, corrupt int) *Tx {
	t := &Tx{Ver: uint32(1 + m.R.Intn(2)), Lock: 0}
	var total uint64
	var spent []Coin
	for _, c := range ins {
		t.In = append(t.In, TxIn{Prev: c.Op, Seq: 0xffffffff})
		total += c.Coin.Value
		spent = append(spent, c.Coin)
	}
	if fee > total/2 {
		fee = total / 2
	}
	rem := total - fee
	kinds := m.txOutKinds(height)
	if nOut < 1 {
		nOut = 1
	}
	for i := 0; i < nOut; i++ {
		v := rem / uint64(nOut-i)
		if i < nOut-1 && v > 1000 {
			v = v/2 + uint64(m.R.Intn(int(v/2)))
		}
		rem -= v
		kind := kinds[m.R.Intn(len(kinds))]
		if m.R.Chance(0.06) {
			kind = KReturn
		} else if m.R.Chance(0.04) {
			kind = KNonStd
		}
		t.Out = append(t.Out, TxOut{v, m.W.Script(kind, m.R.Intn(m.W.NKeys()))})
	}
	if m.ZeroValueOutputs && m.R.Chance(0.15) {
		// a zero-value output to an ordinary address (legal; an address may then hold outputs that add up to nothing)
		t.Out = append(t.Out, TxOut{0, m.W.Script(kinds[m.R.Intn(len(kinds))], m.R.Intn(m.W.NKeys()))})
	}
	m.SignAll(t, spent, corruptIdx, corrupt)
	return t
}

// SignAll signs every input with a drawn hash type.
func (m *Miner) SignAll(t *Tx, spent []Coin, corruptIdx, corrupt int) map[string]int {
	kinds := map[string]int{}
	t.Valid = make([]bool, len(t.In))
	for i := range t.In {
		ht := hashTypes[m.R.Intn(len(hashTypes))]
		if k, _ := m.W.Spendable(spent[i].Pk); k == KP2TR || k == KP2TRS {
			if m.R.Chance(0.4) {
				ht = 0
			}
			if ht&3 == SigSingle && i >= len(t.Out) {
				ht = SigAll // BIP341 defines no digest for SINGLE without a matching output
			}
		}
		c := COk
		if i == corruptIdx {
			c = corrupt
		}
		kinds[m.W.Sign(t, i, spent, ht, c)]++
	}
	t.Touch()
	return kinds
}

// BlockOpts steers Build.
type BlockOpts struct {
	NTx          int
	Time         uint32 // 0 = parent time + ~600
	InBlockChain bool   // allow spending outputs created earlier in the same block
	Viol         string // "" = valid block; else one contextual violation (C04 catalogue)
	ViewFrom     *Node  // build on an INVALID parent: take the coins from this (valid) ancestor's view
	Fat          int    // >0: the coinbase gets an extra zero-value output with a script of this many bytes
	FatN         int    // that many more of them
	HugeFanout   bool   // the block carries one transaction with 65537+ outputs
	DistinctSrc  int    // > 0: the block spends from exactly that many different confirmed transactions (if the view has them), one output of each
	PreferHeight uint32 // != 0: the first transaction spends an output created (by a transaction, not a coinbase) at this height, if the view has one
}

// C04Violations is the catalogue of contextual violations Build knows.
var C04Violations = []string{"bad-sig", "missing-input", "spent-input", "later-output", "double-in-block", "immature", "overspend", "cb-too-much", "own-coinbase", "tap-undef-hashtype", "tap-single-oor",
	"value-wrap", "cb-value-wrap", "sigops-over", "offcurve-key", "offcurve-key",
	"bad-sig", "missing-input", "spent-input", "later-output", "double-in-block", "immature", "overspend", "cb-too-much", "own-coinbase", "value-wrap", "sigops-over",
	// open known findings: drawn less often, so that most runs get past them
	"bip68-height", "bip68-time", "sigops-return"}

// C04Boundary are VALID blocks sitting exactly on a limit.
var C04Boundary = []string{"ok-sigops-exact", "ok-bip68-height", "ok-bip68-time"}

func isBoundary(v string) bool { return len(v) > 3 && v[:3] == "ok-" }

// Build creates a block on parent: valid, or violating exactly the rule named by o.Viol.
// ok=false means the requested violation could not be constructed on this state.
func (m *Miner) Build(parent *Node, o BlockOpts) (b *Block, ok bool) {
	height := parent.Height + 1
	b = &Block{Label: o.Viol}
	view := map[OutPoint]Coin{}
	viewNode := parent
	if o.ViewFrom != nil {
		viewNode = o.ViewFrom
	}
	if o.NTx > 0 || o.Viol != "" {
		for k, v := range viewNode.UTXO() {
			view[k] = v
		}
	}
	used := map[OutPoint]bool{}
	var fees uint64
	var txs []*Tx
	violDone := o.Viol == ""
	ntx := o.NTx
	if o.Viol != "" && ntx < 2 {
		ntx = 2
	}
	violAt := -1
	if o.Viol != "" && ntx > 0 {
		violAt = m.R.Intn(ntx)
	}
	pick := func(av []CoinRef, k int) (ins []CoinRef, rest []CoinRef) {
		for i := 0; i < k && len(av) > 0; i++ {
			j := m.R.Intn(len(av))
			ins = append(ins, av[j])
			used[av[j].Op] = true
			av = append(av[:j], av[j+1:]...)
		}
		return ins, av
	}
	srcSeen := map[[32]byte]bool{}
	for n := 0; n < ntx; n++ {
		av := m.Spendables(view, height, used)
		if o.DistinctSrc > 0 {
			if len(srcSeen) >= o.DistinctSrc {
				break
			}
			var one []CoinRef // one output of every confirmed transaction not spent from yet
			last := [32]byte{}
			for _, c := range av {
				if c.Coin.Height < height && !srcSeen[c.Op.Hash] && (len(one) == 0 || c.Op.Hash != last) {
					one = append(one, c)
					last = c.Op.Hash
				}
			}
			av = one
		}
		if len(av) == 0 {
			break
		}
		k := 1 + m.R.Pick(60, 25, 10, 5)
		if o.DistinctSrc > 0 && k > o.DistinctSrc-len(srcSeen) {
			k = o.DistinctSrc - len(srcSeen)
		}
		if n == 0 && (o.Viol == "sigops-over" || o.Viol == "ok-sigops-exact") && m.R.Chance(0.6) {
			// several P2SH-wrapped segwit inputs: their sigops are found neither in the output script nor in
			// the redeem script but in the witness (cost 1 each, not scaled)
			var wr []CoinRef
			for _, c := range av {
				if kd, _ := m.W.Spendable(c.Coin.Pk); kd == KP2SHWPKH {
					wr = append(wr, c)
				}
			}
			if len(wr) >= 4 {
				av, k = wr, 4+m.R.Intn(3)
			}
		}
		if o.PreferHeight != 0 && n == 0 {
			// the first transaction spends (only) outputs created at that height, if there are any
			var pr []CoinRef
			for _, c := range av {
				if c.Coin.Height == o.PreferHeight && !c.Coin.Coinbase {
					pr = append(pr, c)
				}
			}
			if len(pr) > 0 {
				av, k = pr, 1
			}
		}
		ins, _ := pick(av, k)
		for _, c := range ins {
			srcSeen[c.Op.Hash] = true
		}
		corruptIdx, corrupt := -1, COk
		nOut := 1 + m.R.Pick(40, 30, 15, 10, 5)
		if n == violAt {
			switch o.Viol {
			case "bad-sig":
				corruptIdx, corrupt = m.R.Intn(len(ins)), []int{CFlipBit, CWrongKey, CWrongAmount}[m.R.Intn(3)]
				violDone = true
			case "tap-undef-hashtype", "tap-single-oor":
				// needs a taproot coin as the corrupted input
				for i, c := range ins {
					if kd, _ := m.W.Spendable(c.Coin.Pk); kd == KP2TR || kd == KP2TRS {
						corruptIdx = i
					}
				}
				if corruptIdx < 0 {
					for _, c := range m.Spendables(view, height, used) {
						if kd, _ := m.W.Spendable(c.Coin.Pk); kd == KP2TR || kd == KP2TRS {
							ins = append(ins, c)
							used[c.Op] = true
							corruptIdx = len(ins) - 1
							break
						}
					}
				}
				if corruptIdx >= 0 {
					corrupt = CTapUndefHT
					if o.Viol == "tap-single-oor" {
						corrupt = CTapSingleOOR
						// the corrupted input must have no matching output
						if corruptIdx == 0 {
							if len(ins) < 2 {
								more := m.Spendables(view, height, used)
								if len(more) == 0 {
									corruptIdx = -1
								} else {
									ins = append([]CoinRef{more[0]}, ins...)
									used[more[0].Op] = true
									corruptIdx = 1
								}
							} else {
								ins[0], ins[len(ins)-1] = ins[len(ins)-1], ins[0]
								corruptIdx = len(ins) - 1
							}
						}
						if corruptIdx > 0 {
							nOut = corruptIdx // outputs 0..corruptIdx-1 only
						}
					}
					if corruptIdx >= 0 {
						violDone = true
					}
				}
			case "missing-input":
				var op OutPoint
				copy(op.Hash[:], m.R.Bytes(32))
				op.N = uint32(m.R.Intn(3))
				// value/script of the phantom coin: copy from a real one so that signing works
				ins = append(ins, CoinRef{op, ins[0].Coin})
				violDone = true
			case "spent-input":
				// a coin that an ancestor on this branch has already spent
				for depth := uint32(1); depth <= 6 && !violDone && parent.Height >= depth; depth++ {
					anc := parent.Ancestor(parent.Height - depth)
					if anc == nil || anc.UTXO() == nil {
						break
					}
					var cands []CoinRef
					for op, c := range anc.UTXO() {
						if _, still := parent.UTXO()[op]; !still {
							if kd, sp := m.W.Spendable(c.Pk); sp && m.spendableAt(kd, height) && !(c.Coinbase && height-c.Height < m.L.P.Maturity) {
								cands = append(cands, CoinRef{op, c})
							}
						}
					}
					if len(cands) > 0 {
						sortRefs(cands)
						ins = append(ins, cands[m.R.Intn(len(cands))])
						violDone = true
					}
				}
			case "immature":
				var cands []CoinRef
				for op, c := range view {
					if c.Coinbase && height-c.Height < m.L.P.Maturity && !used[op] {
						if kd, sp := m.W.Spendable(c.Pk); sp && m.spendableAt(kd, height) {
							cands = append(cands, CoinRef{op, c})
						}
					}
				}
				if len(cands) > 0 {
					sortRefs(cands)
					// prefer the boundary: depth 99
					best := cands[m.R.Intn(len(cands))]
					if m.R.Chance(0.6) {
						for _, c := range cands {
							if height-c.Coin.Height == m.L.P.Maturity-1 {
								best = c
							}
						}
					}
					ins = append(ins, best)
					used[best.Op] = true
					violDone = true
				}
			case "double-in-block":
				if len(txs) > 0 {
					// spend again what an earlier transaction of this block spends
					prev := txs[m.R.Intn(len(txs))]
					op := prev.In[m.R.Intn(len(prev.In))].Prev
					if c, okc := parent.UTXO()[op]; okc {
						ins = append(ins, CoinRef{op, c})
						violDone = true
					}
				}
			}
		}
		var tot uint64
		for _, c := range ins {
			tot += c.Coin.Value
		}
		fee := uint64(m.R.Intn(5000))
		if fee > tot/10 {
			fee = tot / 10
		}
		t := m.MakeTx(height, ins, nOut, fee, corruptIdx, corrupt)
		if n == violAt && (o.Viol == "bip68-height" || o.Viol == "bip68-time" || o.Viol == "ok-bip68-height" || o.Viol == "ok-bip68-time") {
			p := m.L.P
			if p.CSVHeight == 0 || height < p.CSVHeight {
				return nil, false
			}
			c := ins[0].Coin
			if c.Height == height {
				return nil, false
			}
			t.Ver = 2
			okCase := isBoundary(o.Viol)
			if o.Viol == "bip68-height" || o.Viol == "ok-bip68-height" {
				seq := height - c.Height // exactly satisfied
				if !okCase {
					seq++
				}
				if seq > 0xffff {
					return nil, false
				}
				t.In[0].Seq = seq
			} else {
				var base uint32
				if c.Height >= 1 {
					base = parent.Ancestor(c.Height - 1).MTP()
				} else {
					base = m.L.Genesis.MTP()
				}
				mtp := parent.MTP()
				if mtp <= base {
					return nil, false
				}
				nn := (mtp-base)/512 + 1 // first value that is NOT yet satisfied
				if okCase {
					nn--
				}
				if nn > 0xffff {
					return nil, false
				}
				t.In[0].Seq = 1<<22 | nn
			}
			var spent []Coin
			for _, c := range ins {
				spent = append(spent, c.Coin)
			}
			m.SignAll(t, spent, -1, COk)
			violDone = true
		}
		var forged *Tx
		if n == violAt && o.Viol == "offcurve-key" && t.Out[0].Value > 2000 {
			// this transaction pays to a key that is not a point of the curve, the next one "spends" that output
			lock := OffCurveScript()
			ki := m.R.Intn(m.W.NKeys())
			if m.R.Chance(0.5) {
				// x of a real key with a y that does not belong to it: the script is still not spendable, but a store
				// that keeps pay-to-pubkey scripts as "x and the parity of y" hands back the script of the real key
				lock = m.W.WrongYScript(ki)
			}
			t.Out[0].Pk = lock
			var spent []Coin
			for _, c := range ins {
				spent = append(spent, c.Coin)
			}
			m.SignAll(t, spent, -1, COk)
			prev, pval := OutPoint{t.ID(), 0}, t.Out[0].Value
			// an output like this that an earlier block has confirmed (it has been through the node's store) is
			// spent instead, if there is one; then this block only adds another such output
			for ki2 := 0; ki2 < m.W.NKeys(); ki2++ {
				for _, cand := range [][]byte{m.W.WrongYScript(ki2)} {
					for op, c := range view {
						if bytes.Equal(c.Pk, cand) && c.Value > 3000 {
							prev, pval, lock, ki = op, c.Value, cand, ki2
						}
					}
				}
			}
			if prev.Hash != t.ID() {
				delete(view, prev)
			}
			forged = &Tx{Ver: 1, In: []TxIn{{Prev: prev, Seq: 0xffffffff}}, Out: []TxOut{{pval - 1000, m.W.Script(KP2PKH, m.R.Intn(m.W.NKeys()))}}}
			if prev.Hash == t.ID() && lock[1] == 4 && lock[65] != 1 && m.R.Chance(0.5) {
				forged = nil // only create the output this time: the block stays valid, a later block will try to spend it
				violDone = true
			} else if lock[1] == 4 && lock[65] == 1 && lock[2] == 0 && lock[33] == 0 {
				forged.In[0].ScriptSig = push(ForgeOffCurveSig(LegacyDigest(forged, 0, lock, SigAll), SigAll))
			} else {
				forged.In[0].ScriptSig = push(m.W.SignAsRealKey(ki, forged, 0))
			}
			if forged != nil {
				forged.Valid = []bool{false}
			}
			violDone = true
		}
		if n == violAt && o.Viol == "value-wrap" {
			for len(t.Out) < 2 {
				t.Out = append(t.Out, TxOut{0, m.W.Script(KP2PKH, m.R.Intn(m.W.NKeys()))})
			}
			var rest uint64
			for _, x := range t.Out[2:] {
				rest += x.Value
			}
			a := (tot - rest) / 3
			switch m.R.Intn(5) {
			case 3, 4: // an in-range amount first, then one that makes the 64-bit running total wrap to something small
				t.Out[0].Value = a
				t.Out[1].Value = ^uint64(0) - a + 1 + a/2 // a + this = a/2 (mod 2^64)
			case 0: // two outputs of 2^63+x: the 64-bit sum wraps
				t.Out[0].Value = 1<<63 + a
				t.Out[1].Value = 1<<63 + a
			case 1: // a "negative" amount
				t.Out[0].Value = ^uint64(0) - a
				t.Out[1].Value = 2*a + 1
			default: // just above the supply limit next to a wrapping partner
				t.Out[0].Value = MaxMoney + 1
				t.Out[1].Value = ^uint64(0) - MaxMoney + a
			}
			var spent []Coin
			for _, c := range ins {
				spent = append(spent, c.Coin)
			}
			m.SignAll(t, spent, -1, COk)
			violDone = true
			tot = 0
		}
		if n == violAt && o.Viol == "overspend" {
			var outsum uint64
			for _, x := range t.Out {
				outsum += x.Value
			}
			t.Out[len(t.Out)-1].Value += tot - outsum + 1 + uint64(m.R.Intn(3))
			var spent []Coin
			for _, c := range ins {
				spent = append(spent, c.Coin)
			}
			m.SignAll(t, spent, -1, COk)
			violDone = true
			fee = 0
			tot = 0 // contributes no fee
		}
		var outsum uint64
		for _, x := range t.Out {
			outsum += x.Value
		}
		if tot >= outsum {
			fees += tot - outsum
		}
		txs = append(txs, t)
		if forged != nil {
			txs = append(txs, forged)
			fees += 1000
		}
		for _, c := range ins {
			delete(view, c.Op)
		}
		if o.InBlockChain || o.Viol == "later-output" {
			id := t.ID()
			for i, x := range t.Out {
				view[OutPoint{id, uint32(i)}] = Coin{x.Value, x.Pk, height, false}
			}
		}
	}
	if o.Viol == "later-output" {
		// find a child that spends an output of an earlier transaction of this block and move it in front of its parent
		for ci := len(txs) - 1; ci > 0 && !violDone; ci-- {
			for _, in := range txs[ci].In {
				for pi := 0; pi < ci && !violDone; pi++ {
					if in.Prev.Hash == txs[pi].ID() {
						c := txs[ci]
						copy(txs[pi+1:ci+1], txs[pi:ci])
						txs[pi] = c
						violDone = true
					}
				}
			}
		}
	}
	if o.HugeFanout {
		// one transaction with more than 65536 outputs (tiny ones nobody indexes) and two outputs to a wallet
		// address, one below and one above index 65535
		for _, c := range m.Spendables(view, height, nil) {
			if c.Coin.Value < 3_000_000 {
				continue
			}
			t := &Tx{Ver: 2, In: []TxIn{{Prev: c.Op, Seq: 0xffffffff}}}
			addr := m.W.Script(KP2WPKH, m.R.Intn(m.W.NKeys()))
			hi := 65536 + m.R.Intn(300)
			lo := m.R.Intn(60000)
			for k := 0; k <= hi; k++ {
				switch k {
				case lo:
					t.Out = append(t.Out, TxOut{1_000_000, addr})
				case hi:
					t.Out = append(t.Out, TxOut{c.Coin.Value - 1_000_000 - 2000, addr})
				default:
					t.Out = append(t.Out, TxOut{0, []byte{0x51}})
				}
			}
			m.SignAll(t, []Coin{c.Coin}, -1, COk)
			txs = append(txs, t)
			fees += 2000
			delete(view, c.Op)
			break
		}
	}
	claim := Subsidy(height) + fees
	if o.Viol == "cb-too-much" {
		claim += 1 + uint64(m.R.Intn(2))
		violDone = true
	} else if m.R.Chance(0.2) && claim > 10 {
		claim -= uint64(m.R.Intn(10)) // claiming less is fine
	}
	m.extra++
	cb := m.Coinbase(height, claim, 1+m.R.Pick(30, 30, 25, 15), m.extra)
	if o.Fat > 0 {
		// a bulky (never spent) output, so that the unspent set outgrows one snapshot write buffer quickly
		for k := 0; k <= o.FatN; k++ {
			cb.Out = append(cb.Out, TxOut{0, append([]byte{0x51, 0x75, byte(k)}, make([]byte, o.Fat)...)})
		}
		cb.Touch()
	}
	if o.Viol == "own-coinbase" {
		// a transaction spending an output of this very block's coinbase
		for i, x := range cb.Out {
			if kd, sp := m.W.Spendable(x.Pk); sp && m.spendableAt(kd, height) && x.Value > 3000 {
				t := m.MakeTx(height, []CoinRef{{OutPoint{cb.ID(), uint32(i)}, Coin{x.Value, x.Pk, height, true}}}, 1, 0, -1, COk)
				// zero fee so that the coinbase claim stays right
				txs = append(txs, t)
				violDone = true
				break
			}
		}
	}
	if o.Viol == "cb-value-wrap" {
		for len(cb.Out) < 2 {
			cb.Out = append(cb.Out, TxOut{0, m.W.Script(KP2PKH, 0)})
		}
		var rest uint64
		for _, x := range cb.Out[2:] {
			rest += x.Value
		}
		a := (claim - rest) / 2
		if m.R.Chance(0.5) {
			cb.Out[0].Value = 1<<63 + a
			cb.Out[1].Value = 1<<63 + (claim - rest - a)
		} else {
			// in-range first, wrapping partner second
			cb.Out[0].Value = a
			cb.Out[1].Value = ^uint64(0) - a + 1 + (claim - rest - a)
		}
		cb.Touch()
		violDone = true
	}
	if o.Viol == "sigops-over" || o.Viol == "sigops-return" || o.Viol == "ok-sigops-exact" {
		cost := m.blockSigops(parent, append([]*Tx{cb}, txs...))
		room := 80000 - cost
		if room < 8 {
			return nil, false
		}
		nn := room / 4
		var scr []byte
		switch o.Viol {
		case "ok-sigops-exact":
			if room%4 != 0 {
				return nil, false
			}
		case "sigops-over":
			nn++
		case "sigops-return":
			nn++
			scr = append(scr, 0x6a)
		}
		if o.Viol != "sigops-return" && m.R.Chance(0.5) {
			// some of them sit in the coinbase input script (they count like any legacy sigop); cost is recomputed
			k := 1 + m.R.Intn(40)
			if k > nn {
				k = nn
			}
			if len(cb.In[0].ScriptSig)+k <= 100 {
				for i := 0; i < k; i++ {
					cb.In[0].ScriptSig = append(cb.In[0].ScriptSig, 0xac)
				}
				nn -= k
			}
		}
		for i := 0; i < nn; i++ {
			scr = append(scr, 0xac)
		}
		cb.Out = append(cb.Out, TxOut{0, scr})
		cb.Touch()
		violDone = true
	}
	if isBoundary(o.Viol) {
		b.Label = o.Viol
	}
	if !violDone {
		return nil, false
	}
	b.Txs = append([]*Tx{cb}, txs...)
	b.H.Ver = 0x20000000
	b.H.Prev = parent.Hash
	b.H.Time = o.Time
	if b.H.Time == 0 {
		b.H.Time = parent.Time + 600
	}
	if mtp := parent.MTP(); b.H.Time <= mtp {
		b.H.Time = mtp + 1
	}
	b.H.Bits = m.L.ExpectedBits(parent, b.H.Time)
	if t, neg, ovf := CompactToBig(b.H.Bits); neg || ovf || t.Sign() == 0 || t.BitLen() < 236 {
		return nil, false // (the child of a block with an unusable target) nothing a simulated miner can satisfy
	}
	m.Finish(parent, b)
	return b, true
}

// C05Violations is the catalogue of header / structure / commitment violations.
var C05Violations = []string{"high-hash", "bits-wrong", "bits-negative", "bits-zero", "bits-overflow", "time-mtp", "time-future", "version-old",
	"cb-script-short", "cb-script-long", "bad-cb-height", "second-coinbase", "no-coinbase", "non-final-height", "non-final-time",
	"merkle-dup", "bad-merkle", "witness-commit-wrong", "witness-missing-commit", "witness-nonce-size", "short-block", "empty-vout", "null-prevout",
	"witness-commit-two", "weight-over", "txcount-huge", "version-old", "forged-parent", "empty-vout", "empty-vout", "witness-superfluous", "witness-superfluous", "tail-cut", "noncanonical-size", "noncanonical-size", "cb-extra-input"}

// C05Boundary are mutations that keep the block VALID while sitting on a limit (MutateC05 kinds starting with "ok-").
var C05Boundary = []string{"ok-witness-commit-two", "ok-weight-exact"}

// MutateC05 turns the valid block b (child of parent) into one violating only the named rule.
// now is the node's clock when the block will be delivered at the earliest.
func (m *Miner) MutateC05(parent *Node, b *Block, kind string, now int64) bool {
	p := m.L.P
	height := parent.Height + 1
	segwit := p.SegwitHeight != 0 && height >= p.SegwitHeight
	b.Label = kind
	regrind := func() {
		b.H.Merkle, _ = b.TxMerkle()
		b.H.Nonce = 0
		Grind(&b.H)
	}
	hasCommit := func() bool {
		for _, o := range b.Txs[0].Out {
			if len(o.Pk) >= 38 && bytes.Equal(o.Pk[:6], commitHdr) {
				return true
			}
		}
		return false
	}
	recommit := func() {
		if segwit && hasCommit() {
			SetCommitment(b)
		}
	}
	switch kind {
	case "high-hash":
		b.H.Nonce = 0
		if m.R.Chance(0.5) {
			GrindJustAbove(&b.H)
		} else {
			GrindAbove(&b.H)
		}
	case "bits-wrong":
		want := m.L.ExpectedBits(parent, b.H.Time)
		cands := []uint32{0x207ffffe, 0x1f7fffff, 0x2000ffff, parent.Bits, p.PowLimitBits, want + 1, want - 1}
		if t, neg, ovf := CompactToBig(want); !neg && !ovf && t.Sign() > 0 {
			// the target a wrong timespan clamp, a skipped or a doubled adjustment would give
			lim, _, _ := CompactToBig(p.PowLimitBits)
			for _, f := range [][2]int64{{4, 1}, {1, 4}, {2, 1}, {1, 2}, {16, 1}} {
				x := new(big.Int).Mul(t, big.NewInt(f[0]))
				x.Div(x, big.NewInt(f[1]))
				if x.Cmp(lim) > 0 {
					x = lim
				}
				cands = append(cands, BigToCompact(x))
			}
		}
		var ok []uint32
		for _, c := range cands {
			if t, neg, ovf := CompactToBig(c); c != want && !neg && !ovf && t.Sign() > 0 && t.BitLen() >= 236 {
				ok = append(ok, c)
			}
		}
		if len(ok) == 0 {
			return false
		}
		b.H.Bits = ok[m.R.Intn(len(ok))]
		b.H.Nonce = 0
		Grind(&b.H)
	case "bits-negative":
		b.H.Bits = 0x20800001
	case "bits-zero":
		b.H.Bits = 0x20000000
	case "bits-overflow":
		b.H.Bits = 0xff123456
	case "time-mtp":
		b.H.Time = parent.MTP() - uint32(m.R.Intn(2))
		if p.Testnet {
			b.H.Bits = m.L.ExpectedBits(parent, b.H.Time)
		}
		regrind()
	case "time-future":
		b.H.Time = uint32(now + 7201 + int64(m.R.Intn(3)))
		b.H.Bits = m.L.ExpectedBits(parent, b.H.Time)
		regrind()
	case "version-old":
		var vs []uint32
		if height >= p.BIP34Height {
			vs = append(vs, 1)
		}
		if height >= p.BIP66Height {
			vs = append(vs, 2)
		}
		if height >= p.BIP65Height {
			vs = append(vs, 3)
		}
		if len(vs) == 0 {
			return false
		}
		// the version is a SIGNED 32-bit number: with the top bit set it is below every threshold
		vs = append(vs, 0x80000000, 0xa0000004, 0xffffffff)
		b.H.Ver = vs[m.R.Intn(len(vs))]
		regrind()
	case "cb-script-short":
		b.Txs[0].In[0].ScriptSig = []byte{0x51}
		b.Txs[0].Touch()
		recommit()
		regrind()
	case "cb-script-long":
		ss := append([]byte{}, HeightScript(height)...)
		for len(ss) < 101 {
			ss = append(ss, 0x51)
		}
		b.Txs[0].In[0].ScriptSig = ss
		b.Txs[0].Touch()
		recommit()
		regrind()
	case "bad-cb-height":
		if height < p.BIP34Height {
			return false
		}
		ss := append([]byte{}, HeightScript(height+1)...)
		ss = append(ss, 0x51, 0x51)
		if m.R.Chance(0.3) {
			// non-minimal push of the right height
			hs := HeightScript(height)
			if len(hs) > 1 {
				ss = append([]byte{hs[0] + 1}, append(hs[1:], 0x00)...)
				ss = append(ss, 0x51)
			}
		}
		b.Txs[0].In[0].ScriptSig = ss
		b.Txs[0].Touch()
		recommit()
		regrind()
	case "second-coinbase":
		cb2 := m.Coinbase(height, 0, 1, 0xabcdef)
		b.Txs = append(b.Txs, cb2)
		recommit()
		regrind()
	case "cb-extra-input":
		// the first transaction starts with the null reference but has a further input (a made-up one, or the
		// previous block's reward): it is no coinbase, so the block has none
		in := TxIn{Prev: OutPoint{N: uint32(m.R.Intn(3))}, Seq: 0xffffffff}
		if parent.Blk != nil && len(parent.Blk.Txs) > 0 && m.R.Chance(0.5) {
			in.Prev = OutPoint{Hash: parent.Blk.Txs[0].ID(), N: 0}
		} else {
			for i := range in.Prev.Hash {
				in.Prev.Hash[i] = byte(m.R.Intn(256))
			}
		}
		b.Txs[0].In = append(b.Txs[0].In, in)
		if b.Txs[0].Valid != nil {
			b.Txs[0].Valid = append(b.Txs[0].Valid, true)
		}
		b.Txs[0].Touch()
		recommit()
		regrind()
	case "no-coinbase":
		if len(b.Txs) < 2 {
			return false
		}
		b.Txs = b.Txs[1:]
		regrind()
	case "non-final-height", "non-final-time":
		if len(b.Txs) < 2 || m.R.Chance(0.25) {
			// the coinbase itself: a lock time at the limit with a sequence number that does not switch it off
			cb := b.Txs[0]
			if kind == "non-final-height" {
				cb.Lock = height + uint32(m.R.Intn(2))
			} else {
				cutoff := b.H.Time
				if p.CSVHeight != 0 && height >= p.CSVHeight {
					cutoff = parent.MTP()
				}
				cb.Lock = cutoff + uint32(m.R.Intn(2))
			}
			cb.In[0].Seq = 0xfffffffe
			cb.Touch()
			recommit()
			regrind()
			return true
		}
		if m.R.Chance(0.5) {
			// ... and the coinbase as well: two transactions of the block fail the same check
			cb := b.Txs[0]
			cb.Lock = height + uint32(m.R.Intn(2))
			if kind != "non-final-height" {
				cb.Lock = b.H.Time + uint32(m.R.Intn(2))
				if p.CSVHeight != 0 && height >= p.CSVHeight {
					cb.Lock = parent.MTP() + uint32(m.R.Intn(2))
				}
			}
			cb.In[0].Seq = 0xfffffffe
			cb.Touch()
		}
		t := b.Txs[1+m.R.Intn(len(b.Txs)-1)]
		if kind == "non-final-height" {
			t.Lock = height + uint32(m.R.Intn(2))
		} else {
			cutoff := b.H.Time
			if p.CSVHeight != 0 && height >= p.CSVHeight {
				cutoff = parent.MTP()
			}
			t.Lock = cutoff + uint32(m.R.Intn(2))
		}
		t.In[0].Seq = 0xfffffffe
		// re-sign: look the coins up in the parent's view / earlier transactions of the block
		view := map[OutPoint]Coin{}
		for k, v := range parent.UTXO() {
			view[k] = v
		}
		for _, x := range b.Txs {
			id := x.ID()
			if x == t {
				break
			}
			for i, o := range x.Out {
				view[OutPoint{id, uint32(i)}] = Coin{o.Value, o.Pk, height, false}
			}
		}
		var spent []Coin
		for _, in := range t.In {
			c, ok := view[in.Prev]
			if !ok {
				return false
			}
			spent = append(spent, c)
		}
		oldID := t.ID()
		t.Touch()
		m.SignAll(t, spent, -1, COk)
		// a later transaction of the block spending t's outputs would now dangle: give up then
		for _, x := range b.Txs {
			for _, in := range x.In {
				if in.Prev.Hash == oldID {
					return false
				}
			}
		}
		recommit()
		regrind()
	case "merkle-dup":
		if len(b.Txs) < 2 {
			return false
		}
		// duplicate the trailing subtree of 2^k transactions at a level whose node count is odd:
		// [.., T] -> [.., T, T] at the leaf level, [0..5] -> [0..5, 4, 5] one level up, and so on
		n := len(b.Txs)
		done := false
		for k := uint(0); (n>>k) > 1 && !done; k++ {
			if n%(1<<k) != 0 {
				break
			}
			if (n>>k)%2 == 1 {
				b.Txs = append(b.Txs, b.Txs[n-(1<<k):n]...)
				done = true
			}
		}
		if !done {
			return false
		}
		// root (and the commitment over wtxids) are deliberately left as they were
	case "bad-merkle":
		b.H.Merkle[m.R.Intn(32)] ^= 1 << uint(m.R.Intn(8))
		b.H.Nonce = 0
		Grind(&b.H)
	case "witness-commit-wrong":
		if !segwit || !hasCommit() {
			return false
		}
		cb := b.Txs[0]
		for i := range cb.Out {
			if len(cb.Out[i].Pk) >= 38 && bytes.Equal(cb.Out[i].Pk[:6], commitHdr) {
				cb.Out[i].Pk[6+m.R.Intn(32)] ^= 0x01
			}
		}
		cb.Touch()
		regrind()
	case "witness-missing-commit":
		if !segwit || !hasCommit() {
			return false
		}
		cb := b.Txs[0]
		var outs []TxOut
		for _, o := range cb.Out {
			if !(len(o.Pk) >= 38 && bytes.Equal(o.Pk[:6], commitHdr)) {
				outs = append(outs, o)
			}
		}
		cb.Out = outs
		cb.In[0].Wit = nil
		cb.Touch()
		regrind()
	case "witness-commit-two", "ok-witness-commit-two":
		// two outputs carry the commitment pattern: the LAST one is the commitment (BIP141)
		if !segwit || !hasCommit() {
			return false
		}
		cb := b.Txs[0]
		ci := -1
		for i := range cb.Out {
			if len(cb.Out[i].Pk) >= 38 && bytes.Equal(cb.Out[i].Pk[:6], commitHdr) {
				ci = i
			}
		}
		bad := TxOut{0, append([]byte{}, cb.Out[ci].Pk...)}
		bad.Pk[6+m.R.Intn(32)] ^= 0x10
		if kind == "witness-commit-two" {
			cb.Out = append(cb.Out, bad) // correct one first, wrong one last: invalid
		} else {
			outs := append([]TxOut{}, cb.Out[:ci]...)
			outs = append(outs, bad)
			cb.Out = append(outs, cb.Out[ci:]...) // wrong one first, correct one last: valid
		}
		cb.Touch()
		regrind()
	case "weight-over", "ok-weight-exact":
		// pad the coinbase with an unspendable output until the block weight is exactly at / just above 4,000,000
		cb := b.Txs[0]
		cb.Out = append(cb.Out, TxOut{0, append([]byte{0x6a}, make([]byte, 70000)...)})
		cb.Touch()
		w0 := b.Weight()
		r := (4000000 - w0) % 4
		if r < 0 {
			return false
		}
		target := 4000000 - r // the largest reachable weight that is still allowed
		if kind == "weight-over" {
			target += 4
			if m.R.Chance(0.3) {
				target += 4 * m.R.Intn(3)
			}
		} else if m.R.Chance(0.3) {
			target -= 4 * m.R.Intn(3)
		}
		pad := (target - w0) / 4
		if pad < 0 {
			return false
		}
		last := &cb.Out[len(cb.Out)-1]
		last.Pk = append(last.Pk, make([]byte, pad)...)
		cb.Touch()
		if b.Weight() != target {
			return false
		}
		recommit()
		regrind()
	case "witness-nonce-size":
		if !segwit || !hasCommit() {
			return false
		}
		cb := b.Txs[0]
		switch m.R.Intn(4) {
		case 3:
			cb.In[0].Wit = nil // commitment output present, coinbase without any witness (serialised in legacy form)
		case 0:
			cb.In[0].Wit = [][]byte{make([]byte, 31)}
		case 1:
			cb.In[0].Wit = [][]byte{make([]byte, 33)}
		default:
			cb.In[0].Wit = [][]byte{make([]byte, 32), make([]byte, 32)}
		}
		cb.Touch()
		regrind()
	case "witness-superfluous":
		// a transaction without witness data travels in the marker/flag form with an empty stack per input
		// ("superfluous witness record": not a valid serialization). In half of the cases the commitment is taken
		// over the hash of those bytes instead of the transaction's txid.
		if !segwit || !hasCommit() {
			return false
		}
		at := -1
		for i := 1; i < len(b.Txs); i++ {
			if !b.Txs[i].HasWitness() {
				at = i
			}
		}
		if at < 0 {
			return false
		}
		t := b.Txs[at]
		plain := t.Bytes(false)
		ext := append([]byte{}, plain[:4]...)
		ext = append(ext, 0, 1)
		ext = append(ext, plain[4:len(plain)-4]...)
		ext = append(ext, make([]byte, len(t.In))...)
		ext = append(ext, plain[len(plain)-4:]...)
		if m.R.Chance(0.5) {
			cb := b.Txs[0]
			ids := make([][32]byte, len(b.Txs))
			for i, x := range b.Txs {
				if i == at {
					ids[i] = Sha256d(ext)
				} else if i > 0 {
					ids[i] = x.WID()
				}
			}
			wr, _ := MerkleRoot(ids)
			c := Sha256d(append(append([]byte{}, wr[:]...), cb.In[0].Wit[0]...))
			for i := range cb.Out {
				if len(cb.Out[i].Pk) >= 38 && bytes.Equal(cb.Out[i].Pk[:6], commitHdr) {
					cb.Out[i].Pk = append(append([]byte{}, commitHdr...), c[:]...)
				}
			}
			cb.Touch()
			regrind()
		}
		var w bytes.Buffer
		w.Write(b.H.Bytes())
		PutVarInt(&w, uint64(len(b.Txs)))
		for i, x := range b.Txs {
			if i == at {
				w.Write(ext)
			} else {
				w.Write(x.Bytes(true))
			}
		}
		b.RawOverride, b.RawClause = w.Bytes(), "superfluous-witness-record"
	case "noncanonical-size":
		// a CompactSize that is not written the shortest way (transaction count, or the length of the coinbase's
		// input script in a coinbase that travels in witness format, whose txid is computed from its fields):
		// every hash and commitment of the block is right, the bytes are not a valid serialization
		raw := b.Bytes()
		wide := func(v uint64) []byte {
			switch m.R.Intn(3) {
			case 0:
				return []byte{0xfd, byte(v), byte(v >> 8)}
			case 1:
				return []byte{0xfe, byte(v), byte(v >> 8), byte(v >> 16), byte(v >> 24)}
			}
			return []byte{0xff, byte(v), byte(v >> 8), byte(v >> 16), byte(v >> 24), 0, 0, 0, 0}
		}
		if len(b.Txs) >= 0xfd || raw[80] >= 0xfd {
			return false
		}
		at := 80 // the transaction count
		if m.R.Chance(0.5) && b.Txs[0].HasWitness() {
			at = 80 + 1 + 4 + 2 + 1 + 36 // ... version, marker+flag, input count, previous output: the script length
			if raw[at] >= 0xfd || int(raw[at]) != len(b.Txs[0].In[0].ScriptSig) {
				return false
			}
		}
		out := append([]byte{}, raw[:at]...)
		out = append(out, wide(uint64(raw[at]))...)
		b.RawOverride, b.RawClause = append(out, raw[at+1:]...), "non-canonical-compactsize"
	case "tail-cut":
		// the last transaction is cut short: everything before it parses
		if len(b.Txs) < 2 {
			return false
		}
		raw := b.Bytes()
		last := len(b.Txs[len(b.Txs)-1].Bytes(true))
		b.RawOverride = append([]byte{}, raw[:len(raw)-1-m.R.Intn(last-1)]...)
	case "short-block":
		b.RawOverride = b.H.Bytes()
	case "forged-parent":
		// the previous-block field shares only its first eight bytes with the parent's hash
		for i := 8; i < 32; i++ {
			b.H.Prev[i] ^= byte(0x11 * (1 + m.R.Intn(14)))
		}
		b.H.Nonce = 0
		Grind(&b.H)
	case "txcount-huge":
		// a valid header followed by a transaction count that does not fit an int (and nothing else)
		b.RawOverride = append(b.H.Bytes(), [][]byte{{0xff, 0xff, 0xff, 0xff, 0xff, 0xff, 0xff, 0xff, 0xff}, {0xff, 0, 0, 0, 0, 0, 0, 0, 0x80}, {0xfe, 0xff, 0xff, 0xff, 0x7f}, {0xff, 0xff, 0xff, 0xff, 0xff, 0xff, 0xff, 0xff, 0x7f}}[m.R.Intn(4)]...)
	case "empty-vout":
		if len(b.Txs) < 2 {
			return false
		}
		// a transaction without outputs (all of its input value becomes fee; the coinbase claim stays below)
		t := b.Txs[len(b.Txs)-1]
		t.Out = nil
		t.Touch()
		if m.R.Chance(0.5) {
			// ... every transaction of the block but the first: the (parallel) context-free checks fail several times
			for _, x := range b.Txs[1:] {
				x.Out = nil
				x.Touch()
			}
		}
		recommit()
		regrind()
	case "null-prevout":
		if len(b.Txs) < 2 {
			return false
		}
		t := b.Txs[len(b.Txs)-1]
		t.In = append(t.In, TxIn{Prev: OutPoint{N: 0xffffffff}, Seq: 0xffffffff})
		t.Valid = append(t.Valid, true)
		t.Touch()
		recommit()
		regrind()
	default:
		return false
	}
	return true
}

// blockSigops is the BIP141 sigop cost of the given transactions on top of parent.
func (m *Miner) blockSigops(parent *Node, txs []*Tx) int {
	height := parent.Height + 1
	p := m.L.P
	segwit := p.SegwitHeight != 0 && height >= p.SegwitHeight
	view := map[OutPoint]Coin{}
	for k, v := range parent.UTXO() {
		view[k] = v
	}
	n := 0
	for ti, t := range txs {
		var spent []Coin
		if ti > 0 {
			for _, in := range t.In {
				spent = append(spent, view[in.Prev])
			}
		}
		n += SigOpCost(t, spent, true, segwit)
		id := t.ID()
		for i, o := range t.Out {
			view[OutPoint{id, uint32(i)}] = Coin{o.Value, o.Pk, height, ti == 0}
		}
	}
	return n
}
