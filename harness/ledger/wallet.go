package ledger

// The independent signer: keys, script templates and its own implementation of
// the legacy, BIP143 and BIP341 digests (written from the BIPs; it never calls
// gocoin's Tx.SignatureHash / WitnessSigHash / TaprootSigHash).  Only the
// elliptic-curve primitives (public key derivation, ECDSA/Schnorr signing)
// come from gocoin.

import (
	"bytes"
	"crypto/sha256"
	"encoding/hex"
	"math/big"

	"github.com/piotrnar/gocoin/lib/btc"
	"github.com/piotrnar/gocoin/lib/secp256k1"
)

const (
	KP2PKH = iota
	KP2WPKH
	KP2SHWPKH
	KP2TR
	KTrue      // bare OP_TRUE
	KP2SHTrue  // P2SH(OP_TRUE)
	KP2WSHTrue // P2WSH(OP_TRUE)
	KReturn    // OP_RETURN (unspendable)
	KNonStd    // odd but spendable-by-nobody script
	KP2TRS     // taproot output spent through the script path (tree of 1, 2 or 4 leaves; leaf = <key> CHECKSIG)
	KMultiSep  // bare: 1 <A> 1 CHECKMULTISIGVERIFY CODESEPARATOR 1 <B> 1 CHECKMULTISIG - two signatures over different script codes
	KWshMultiSep // the same script as a P2WSH witness script (BIP143 script code from the last executed separator)
	KP2SHZeroMulti // P2SH of five times `0 0 0 CHECKMULTISIGVERIFY` and OP_1: anyone can spend, 100 sigops in the redeem script (20 per group: no OP_1..16 in front)
	NKinds
)

const (
	SigAll    = 1
	SigNone   = 2
	SigSingle = 3
	SigACP    = 0x80
)

// Corruption modes for Sign.
const (
	COk          = iota
	CFlipBit     // valid signature with one bit flipped
	CWrongKey    // signed with another key
	CWrongAmount // commits to amount+1 (segwit / taproot only)
	CTapUndefHT  // taproot: undefined hash type, signature over the all-zero digest
	CTapSingleOOR // taproot: SIGHASH_SINGLE without matching output, signature over the all-zero digest
)

type spendInfo struct {
	Kind int
	Key  int
}

type Wallet struct {
	priv    [][]byte
	pub     [][]byte // compressed
	scripts map[string]spendInfo
}

// WrongYScript is <04 | x of key i | y with one bit changed, same parity> OP_CHECKSIG: not a point of the curve.
func (w *Wallet) WrongYScript(i int) []byte {
	u := btc.PublicFromPrivate(w.priv[i%len(w.priv)], false)
	k := append([]byte{}, u...)
	k[64] ^= 2 // (same parity as the real y)
	return append(append([]byte{0x41}, k...), 0xac)
}

// SignAsRealKey signs input idx of t with key i as if the output were locked to the REAL uncompressed key.
func (w *Wallet) SignAsRealKey(i int, t *Tx, idx int) []byte {
	u := btc.PublicFromPrivate(w.priv[i%len(w.priv)], false)
	code := append(append([]byte{0x41}, u...), 0xac)
	d := LegacyDigest(t, idx, code, SigAll)
	r, s, _ := btc.EcdsaSign(w.priv[i%len(w.priv)], d[:])
	return append(derSig(r, s), SigAll)
}

var curveN, _ = new(big.Int).SetString("FFFFFFFFFFFFFFFFFFFFFFFFFFFFFFFEBAAEDCE6AF48A03BBFD25E8CD0364141", 16)

func NewWallet(seed uint64, n int) *Wallet {
	btc.EcdsaSignWithRFC6979 = true
	w := &Wallet{scripts: map[string]spendInfo{}}
	for i := 0; i < n; i++ {
		var s [16]byte
		for j := 0; j < 8; j++ {
			s[j] = byte(seed >> (8 * j))
		}
		s[8] = byte(i)
		s[9] = byte(i >> 8)
		k := sha256.Sum256(s[:])
		k[0] &= 0x7f
		if k == [32]byte{} {
			k[31] = 1
		}
		w.priv = append(w.priv, k[:])
		w.pub = append(w.pub, btc.PublicFromPrivate(k[:], true))
	}
	return w
}

func (w *Wallet) NKeys() int { return len(w.priv) }

func push(d []byte) []byte {
	switch {
	case len(d) < 0x4c:
		return append([]byte{byte(len(d))}, d...)
	case len(d) <= 0xff:
		return append([]byte{0x4c, byte(len(d))}, d...)
	default:
		return append([]byte{0x4d, byte(len(d)), byte(len(d) >> 8)}, d...)
	}
}

// tapKey returns the tweaked secret key and the x-only output key for key i.
func (w *Wallet) tapKey(i int) (sec []byte, xonly []byte) {
	d := new(big.Int).SetBytes(w.priv[i])
	if w.pub[i][0] == 3 { // odd y: negate
		d.Sub(curveN, d)
	}
	t := TaggedHash("TapTweak", w.pub[i][1:33])
	tv := new(big.Int).SetBytes(t[:])
	d.Add(d, tv).Mod(d, curveN)
	sec = make([]byte, 32)
	d.FillBytes(sec)
	q := btc.PublicFromPrivate(sec, true)
	return sec, q[1:33]
}

// tapTree is the script tree behind key i's script-path output: the spending leaf `<xonly key j> CHECKSIG`
// (j = i+1), a merkle path of 0, 1 or 2 sibling hashes (i mod 3), the internal key (key i), the output key and
// its parity.  Built from BIP341's definitions only.
type tapTree struct {
	leaf     []byte
	leafHash [32]byte
	path     [][32]byte
	internal []byte // x-only internal key
	out      []byte // x-only output key
	parity   byte
	leafKey  int
	codesep  uint32 // opcode position of the last executed OP_CODESEPARATOR of the leaf (0xffffffff: none)
}

func tapLeafHash(script []byte) [32]byte {
	var b bytes.Buffer
	b.WriteByte(0xc0)
	PutVarInt(&b, uint64(len(script)))
	b.Write(script)
	return TaggedHash("TapLeaf", b.Bytes())
}

func (w *Wallet) tapTree(i int) *tapTree {
	i = i % len(w.priv)
	j := (i + 1) % len(w.priv)
	tt := &tapTree{leafKey: j, internal: append([]byte{}, w.pub[i][1:33]...), codesep: 0xffffffff}
	tt.leaf = append(push(w.pub[j][1:33]), 0xac)
	switch (i / 3) % 4 {
	case 1: // a code separator in a branch that is not executed: does not count
		tt.leaf = append([]byte{0x00, 0x63, 0xab, 0x68}, tt.leaf...)
	case 2: // executed, first opcode
		tt.leaf, tt.codesep = append([]byte{0xab}, tt.leaf...), 0
	case 3: // executed, third opcode (OP_1 OP_IF OP_CODESEPARATOR OP_ENDIF)
		tt.leaf, tt.codesep = append([]byte{0x51, 0x63, 0xab, 0x68}, tt.leaf...), 2
	}
	tt.leafHash = tapLeafHash(tt.leaf)
	k := tt.leafHash
	for lvl := 0; lvl < i%3; lvl++ {
		sib := tapLeafHash([]byte{0x51, byte(0x51 + lvl), byte(i)}) // hash of some other leaf / subtree
		tt.path = append(tt.path, sib)
		a, b := k[:], sib[:]
		if bytes.Compare(a, b) > 0 {
			a, b = b, a
		}
		k = TaggedHash("TapBranch", a, b)
	}
	d := new(big.Int).SetBytes(w.priv[i])
	if w.pub[i][0] == 3 {
		d.Sub(curveN, d)
	}
	t := TaggedHash("TapTweak", tt.internal, k[:])
	d.Add(d, new(big.Int).SetBytes(t[:])).Mod(d, curveN)
	sec := make([]byte, 32)
	d.FillBytes(sec)
	q := btc.PublicFromPrivate(sec, true)
	tt.out, tt.parity = q[1:33], q[0]&1
	return tt
}

// Script returns (and registers) the output script of the given kind for key i.
func (w *Wallet) Script(kind, i int) []byte {
	i = i % len(w.priv)
	var pk []byte
	h := Hash160(w.pub[i])
	switch kind {
	case KP2PKH:
		pk = append(append([]byte{0x76, 0xa9, 0x14}, h[:]...), 0x88, 0xac)
	case KP2WPKH:
		pk = append([]byte{0x00, 0x14}, h[:]...)
	case KP2SHWPKH:
		redeem := append([]byte{0x00, 0x14}, h[:]...)
		rh := Hash160(redeem)
		pk = append(append([]byte{0xa9, 0x14}, rh[:]...), 0x87)
	case KP2TR:
		_, x := w.tapKey(i)
		pk = append([]byte{0x51, 0x20}, x...)
	case KP2TRS:
		pk = append([]byte{0x51, 0x20}, w.tapTree(i).out...)
	case KMultiSep:
		pk = w.multiSep(i)
	case KWshMultiSep:
		sh := sha256.Sum256(w.multiSep(i))
		pk = append([]byte{0x00, 0x20}, sh[:]...)
	case KP2SHZeroMulti:
		rh := Hash160(zeroMultiRedeem)
		pk = append(append([]byte{0xa9, 0x14}, rh[:]...), 0x87)
	case KTrue:
		pk = []byte{0x51}
	case KP2SHTrue:
		rh := Hash160([]byte{0x51})
		pk = append(append([]byte{0xa9, 0x14}, rh[:]...), 0x87)
	case KP2WSHTrue:
		sh := sha256.Sum256([]byte{0x51})
		pk = append([]byte{0x00, 0x20}, sh[:]...)
	case KReturn:
		pk = append([]byte{0x6a}, push(h[:8])...)
	default:
		// odd scripts nobody spends; several are not even parseable to the end (legal as an output script:
		// everything that walks them - sigop counting, standardness tests, address indexing - has to cope)
		switch i % 11 {
		case 9:
			// witness version 1..16 with a 20-byte program: the bytes of this key's P2WPKH address, another script
			pk = append([]byte{0x51 + h[1]%16, 0x14}, h[:]...)
		case 10:
			// witness version 2..16 with a 32-byte program: the bytes of this key's taproot output, another script
			_, x := w.tapKey(i)
			pk = append([]byte{0x52 + h[1]%15, 0x20}, x...)
		case 0:
			pk = append([]byte{0x63, 0x67, 0x68, 0x75}, push(h[:5])...) // IF ELSE ENDIF DROP <5 bytes>
		case 1:
			pk = []byte{0x75, 0x4d, h[0]} // DROP PUSHDATA2 with half a length field
		case 2:
			pk = []byte{0x75, 0x4e, h[0], 0x00} // DROP PUSHDATA4 with half a length field
		case 3:
			pk = []byte{0x75, h[0], 0x4c} // DROP <op> PUSHDATA1 without its length byte
		case 4:
			pk = []byte{0x4c, 0x05, h[0], h[1]} // PUSHDATA1 claiming 5 bytes, 2 present
		case 5:
			pk = []byte{0x20, h[0], h[1], h[2]} // push of 32 bytes, 3 present
		case 6:
			pk = []byte{0x75, 0xac, 0xac, 0xad, h[0] | 0x80} // three sigops and an invalid opcode
		case 7:
			pk = []byte{0x60, 0xae, 0x75, 0x4e, 0xff, 0xff, 0xff, 0x7f} // OP_16 CHECKMULTISIG, then PUSHDATA4 of 2 GiB
		default:
			pk = []byte{0x4d, 0xff, 0xff, h[0]} // PUSHDATA2 of 65535 bytes, 1 present
		}
	}
	w.scripts[hex.EncodeToString(pk)] = spendInfo{kind, i}
	return pk
}

var zeroMultiRedeem = append(bytes.Repeat([]byte{0x00, 0x00, 0x00, 0xaf}, 5), 0x51)

// multiSep is the script of KMultiSep / KWshMultiSep for key i (second key: i+1).
func (w *Wallet) multiSep(i int) []byte {
	a, b := w.pub[i%len(w.pub)], w.pub[(i+1)%len(w.pub)]
	s := append([]byte{0x51}, push(a)...)
	s = append(s, 0x51, 0xaf, 0xab, 0x51)
	s = append(s, push(b)...)
	return append(s, 0x51, 0xae)
}

// Spendable reports whether the wallet knows how to spend pk, and its kind.
func (w *Wallet) Spendable(pk []byte) (int, bool) {
	si, ok := w.scripts[hex.EncodeToString(pk)]
	if !ok || si.Kind == KReturn || si.Kind == KNonStd {
		return si.Kind, false
	}
	return si.Kind, true
}

func derSig(r, s *big.Int) []byte {
	enc := func(v *big.Int) []byte {
		b := v.Bytes()
		if len(b) == 0 {
			b = []byte{0}
		}
		if b[0]&0x80 != 0 {
			b = append([]byte{0}, b...)
		}
		return append([]byte{0x02, byte(len(b))}, b...)
	}
	body := append(enc(r), enc(s)...)
	return append([]byte{0x30, byte(len(body))}, body...)
}

// OffCurveScript is <04 | x=0 | y=1> OP_CHECKSIG: a "public key" that is no point of secp256k1 (0^3+7 is not 1).  No
// signature verifies against it; an implementation that does not check the key computes with a point of order 3
// of another curve and accepts one forged signature in three.
func OffCurveScript() []byte {
	k := make([]byte, 65)
	k[0], k[64] = 4, 1
	return append(append([]byte{0x41}, k...), 0xac)
}

// ForgeOffCurveSig returns (r, s) with r = x(kG), s = z/k (low S) and r/s a multiple of 3, DER-encoded with hash type ht.
func ForgeOffCurveSig(z [32]byte, ht byte) []byte {
	zn := new(big.Int).SetBytes(z[:])
	half := new(big.Int).Rsh(curveN, 1)
	for k := int64(2); ; k++ {
		kb := make([]byte, 32)
		new(big.Int).SetInt64(k).FillBytes(kb)
		pub := btc.PublicFromPrivate(kb, true)
		r := new(big.Int).SetBytes(pub[1:33])
		r.Mod(r, curveN)
		s := new(big.Int).Mul(zn, new(big.Int).ModInverse(big.NewInt(k), curveN))
		s.Mod(s, curveN)
		if r.Sign() == 0 || s.Sign() == 0 {
			continue
		}
		if s.Cmp(half) > 0 {
			s.Sub(curveN, s)
		}
		u2 := new(big.Int).Mul(r, new(big.Int).ModInverse(s, curveN))
		u2.Mod(u2, curveN)
		if new(big.Int).Mod(u2, big.NewInt(3)).Sign() != 0 {
			continue
		}
		return append(derSig(r, s), ht)
	}
}

// ---------------------------------------------------------------- digests (from the BIPs)

// LegacyDigest is the original signature hash for input i with the given script code.
func LegacyDigest(t *Tx, i int, scriptCode []byte, ht uint32) [32]byte {
	if int(ht&0x1f) == SigSingle && i >= len(t.Out) {
		var one [32]byte
		one[0] = 1
		return one
	}
	var b bytes.Buffer
	b.Write(le32(t.Ver))
	acp := ht&SigACP != 0
	if acp {
		PutVarInt(&b, 1)
	} else {
		PutVarInt(&b, uint64(len(t.In)))
	}
	for j := range t.In {
		if acp && j != i {
			continue
		}
		in := &t.In[j]
		b.Write(in.Prev.Hash[:])
		b.Write(le32(in.Prev.N))
		if j == i {
			PutVarInt(&b, uint64(len(scriptCode)))
			b.Write(scriptCode)
		} else {
			PutVarInt(&b, 0)
		}
		if j != i && (int(ht&0x1f) == SigNone || int(ht&0x1f) == SigSingle) {
			b.Write(le32(0))
		} else {
			b.Write(le32(in.Seq))
		}
	}
	switch int(ht & 0x1f) {
	case SigNone:
		PutVarInt(&b, 0)
	case SigSingle:
		PutVarInt(&b, uint64(i+1))
		for j := 0; j <= i; j++ {
			if j < i {
				b.Write(le64(0xffffffffffffffff))
				PutVarInt(&b, 0)
			} else {
				b.Write(le64(t.Out[j].Value))
				PutVarInt(&b, uint64(len(t.Out[j].Pk)))
				b.Write(t.Out[j].Pk)
			}
		}
	default:
		PutVarInt(&b, uint64(len(t.Out)))
		for j := range t.Out {
			b.Write(le64(t.Out[j].Value))
			PutVarInt(&b, uint64(len(t.Out[j].Pk)))
			b.Write(t.Out[j].Pk)
		}
	}
	b.Write(le32(t.Lock))
	b.Write(le32(ht))
	return Sha256d(b.Bytes())
}

// SegwitDigest is BIP143.
func SegwitDigest(t *Tx, i int, scriptCode []byte, amount uint64, ht uint32) [32]byte {
	var hp, hs, ho [32]byte
	acp := ht&SigACP != 0
	base := int(ht & 0x1f)
	if !acp {
		var b bytes.Buffer
		for j := range t.In {
			b.Write(t.In[j].Prev.Hash[:])
			b.Write(le32(t.In[j].Prev.N))
		}
		hp = Sha256d(b.Bytes())
	}
	if !acp && base != SigSingle && base != SigNone {
		var b bytes.Buffer
		for j := range t.In {
			b.Write(le32(t.In[j].Seq))
		}
		hs = Sha256d(b.Bytes())
	}
	if base != SigSingle && base != SigNone {
		var b bytes.Buffer
		for j := range t.Out {
			b.Write(le64(t.Out[j].Value))
			PutVarInt(&b, uint64(len(t.Out[j].Pk)))
			b.Write(t.Out[j].Pk)
		}
		ho = Sha256d(b.Bytes())
	} else if base == SigSingle && i < len(t.Out) {
		var b bytes.Buffer
		b.Write(le64(t.Out[i].Value))
		PutVarInt(&b, uint64(len(t.Out[i].Pk)))
		b.Write(t.Out[i].Pk)
		ho = Sha256d(b.Bytes())
	}
	var b bytes.Buffer
	b.Write(le32(t.Ver))
	b.Write(hp[:])
	b.Write(hs[:])
	b.Write(t.In[i].Prev.Hash[:])
	b.Write(le32(t.In[i].Prev.N))
	PutVarInt(&b, uint64(len(scriptCode)))
	b.Write(scriptCode)
	b.Write(le64(amount))
	b.Write(le32(t.In[i].Seq))
	b.Write(ho[:])
	b.Write(le32(t.Lock))
	b.Write(le32(ht))
	return Sha256d(b.Bytes())
}

// TaprootDigest is BIP341 key-path (no annex); spent are the coins of ALL inputs.
// ok=false where BIP341 defines no digest.
func TaprootDigest(t *Tx, i int, spent []Coin, ht byte) (d [32]byte, ok bool) {
	return TaprootDigestExt(t, i, spent, ht, nil, nil, 0xffffffff)
}

// TaprootDigestExt is the BIP341 digest with an optional annex and, for script-path spends (BIP342), the
// leaf hash (key version 0, no OP_CODESEPARATOR executed).
func TaprootDigestExt(t *Tx, i int, spent []Coin, ht byte, annex []byte, leaf *[32]byte, codesep uint32) (d [32]byte, ok bool) {
	switch ht {
	case 0, 1, 2, 3, 0x81, 0x82, 0x83:
	default:
		return d, false
	}
	base := ht & 3
	if ht == 0 {
		base = SigAll
	}
	acp := ht&SigACP != 0
	if base == SigSingle && i >= len(t.Out) {
		return d, false
	}
	var b bytes.Buffer
	b.WriteByte(0) // epoch
	b.WriteByte(ht)
	b.Write(le32(t.Ver))
	b.Write(le32(t.Lock))
	if !acp {
		var p, a, s, q bytes.Buffer
		for j := range t.In {
			p.Write(t.In[j].Prev.Hash[:])
			p.Write(le32(t.In[j].Prev.N))
			a.Write(le64(spent[j].Value))
			PutVarInt(&s, uint64(len(spent[j].Pk)))
			s.Write(spent[j].Pk)
			q.Write(le32(t.In[j].Seq))
		}
		for _, x := range []*bytes.Buffer{&p, &a, &s, &q} {
			h := sha256.Sum256(x.Bytes())
			b.Write(h[:])
		}
	}
	if base == SigAll {
		var o bytes.Buffer
		for j := range t.Out {
			o.Write(le64(t.Out[j].Value))
			PutVarInt(&o, uint64(len(t.Out[j].Pk)))
			o.Write(t.Out[j].Pk)
		}
		h := sha256.Sum256(o.Bytes())
		b.Write(h[:])
	}
	st := byte(0) // spend_type = ext_flag*2 + annex_present
	if leaf != nil {
		st |= 2
	}
	if annex != nil {
		st |= 1
	}
	b.WriteByte(st)
	if acp {
		b.Write(t.In[i].Prev.Hash[:])
		b.Write(le32(t.In[i].Prev.N))
		b.Write(le64(spent[i].Value))
		PutVarInt(&b, uint64(len(spent[i].Pk)))
		b.Write(spent[i].Pk)
		b.Write(le32(t.In[i].Seq))
	} else {
		b.Write(le32(uint32(i)))
	}
	if annex != nil {
		var a bytes.Buffer
		PutVarInt(&a, uint64(len(annex)))
		a.Write(annex)
		h := sha256.Sum256(a.Bytes())
		b.Write(h[:])
	}
	if base == SigSingle {
		var o bytes.Buffer
		o.Write(le64(t.Out[i].Value))
		PutVarInt(&o, uint64(len(t.Out[i].Pk)))
		o.Write(t.Out[i].Pk)
		h := sha256.Sum256(o.Bytes())
		b.Write(h[:])
	}
	if leaf != nil {
		b.Write(leaf[:])
		b.WriteByte(0)                          // key_version
		b.Write(le32(codesep)) // opcode position of the last EXECUTED code separator (0xffffffff: none)
	}
	return TaggedHash("TapSighash", b.Bytes()), true
}

// ---------------------------------------------------------------- signing

// Sign fills in scriptSig / witness of input i spending coin (spent = coins of
// all inputs, needed for taproot) and records the ground truth in t.Valid[i].
// It returns the digest kind used ("legacy", "bip143", "bip341", "none").
func (w *Wallet) Sign(t *Tx, i int, spent []Coin, ht byte, corrupt int) string {
	for len(t.Valid) < len(t.In) {
		t.Valid = append(t.Valid, true)
	}
	coin := spent[i]
	si, ok := w.scripts[hex.EncodeToString(coin.Pk)]
	if !ok {
		t.Valid[i] = false
		return "none"
	}
	in := &t.In[i]
	key := si.Key
	if corrupt == CWrongKey {
		key = (key + 1) % len(w.priv)
	}
	valid := corrupt == COk
	kind := "none"
	ecdsa := func(d [32]byte) []byte {
		r, s, _ := btc.EcdsaSign(w.priv[key], d[:])
		sig := append(derSig(r, s), ht)
		if corrupt == CFlipBit {
			sig[len(sig)-3] ^= 0x10
		}
		return sig
	}
	h := Hash160(w.pub[si.Key])
	code := append(append([]byte{0x76, 0xa9, 0x14}, h[:]...), 0x88, 0xac)
	amount := coin.Value
	if corrupt == CWrongAmount {
		amount++
	}
	switch si.Kind {
	case KP2PKH:
		kind = "legacy"
		if corrupt == CWrongAmount {
			corrupt = CFlipBit // the legacy digest does not commit to the amount
		}
		if corrupt == CTapUndefHT || corrupt == CTapSingleOOR {
			corrupt, valid = COk, true
		}
		sig := ecdsa(LegacyDigest(t, i, code, uint32(ht)))
		in.ScriptSig = append(push(sig), push(w.pub[si.Key])...)
		in.Wit = nil
	case KP2WPKH, KP2SHWPKH:
		kind = "bip143"
		if corrupt == CTapUndefHT || corrupt == CTapSingleOOR {
			corrupt, valid = COk, true
		}
		sig := ecdsa(SegwitDigest(t, i, code, amount, uint32(ht)))
		in.Wit = [][]byte{sig, w.pub[si.Key]}
		in.ScriptSig = nil
		if si.Kind == KP2SHWPKH {
			in.ScriptSig = push(append([]byte{0x00, 0x14}, h[:]...))
		}
	case KP2TR, KP2TRS:
		kind = "bip341"
		sec, _ := w.tapKey(key)
		var tt *tapTree
		var leaf *[32]byte
		if si.Kind == KP2TRS {
			// script path: the signature is made with the leaf's key over the BIP342 digest
			kind = "bip342"
			tt = w.tapTree(si.Key)
			leaf = &tt.leafHash
			lk := tt.leafKey
			if corrupt == CWrongKey {
				lk = (lk + 1) % len(w.priv)
			}
			sec = w.priv[lk]
		}
		// every eighth taproot input carries an annex (committed to by the digest, otherwise ignored)
		var annex []byte
		if in.Prev.Hash[0]%8 == 0 {
			annex = append([]byte{0x50}, in.Prev.Hash[1:1+int(in.Prev.Hash[1]%20)]...)
		}
		sp := append([]Coin(nil), spent...)
		if corrupt == CWrongAmount {
			sp[i].Value++
		}
		tht := ht
		switch corrupt {
		case CTapUndefHT:
			tht = []byte{0x04, 0x80, 0x84, 0x7f, 0x40, 0x10}[int(ht)%6]
		case CTapSingleOOR:
			tht = 0x03
			if i < len(t.Out) {
				// cannot be out of range here: fall back to a flipped bit
				corrupt = CFlipBit
				tht = ht
			}
		}
		codesep := uint32(0xffffffff)
		if tt != nil {
			codesep = tt.codesep
		}
		d, defined := TaprootDigestExt(t, i, sp, tht, annex, leaf, codesep)
		if !defined {
			d = [32]byte{} // the signer deliberately signs "some digest": all zeros
			valid = false
		}
		sig := secp256k1.SchnorrSign(d[:], sec, make([]byte, 32))
		if corrupt == CFlipBit {
			sig[40] ^= 0x04
		}
		if tht != 0 {
			sig = append(sig, tht)
		}
		in.Wit = [][]byte{sig}
		if tt != nil {
			ctrl := append([]byte{0xc0 | tt.parity}, tt.internal...)
			for _, e := range tt.path {
				ctrl = append(ctrl, e[:]...)
			}
			in.Wit = [][]byte{sig, tt.leaf, ctrl}
		}
		if annex != nil {
			in.Wit = append(in.Wit, annex)
		}
		in.ScriptSig = nil
	case KMultiSep, KWshMultiSep:
		// the first CHECKMULTISIG signs the whole script (legacy: without the separator), the second one only
		// what follows the separator; a corruption goes into the second signature
		if corrupt == CTapUndefHT || corrupt == CTapSingleOOR {
			corrupt, valid = COk, true
		}
		full := w.multiSep(si.Key)
		cut := bytes.IndexByte(full[36:], 0xab) + 36 // (the first 36 bytes are OP_1 and the push of key A)
		tail := full[cut+1:]
		mk := func(k int, d [32]byte, bad bool) []byte {
			r, s, _ := btc.EcdsaSign(w.priv[k%len(w.priv)], d[:])
			sig := append(derSig(r, s), ht)
			if bad && corrupt == CFlipBit {
				sig[len(sig)-3] ^= 0x10
			}
			return sig
		}
		kb := si.Key + 1
		if corrupt == CWrongKey {
			kb++
		}
		var sa, sb []byte
		if si.Kind == KMultiSep {
			kind = "legacy"
			if corrupt == CWrongAmount {
				corrupt = CFlipBit
			}
			noSep := append(append([]byte{}, full[:cut]...), tail...)
			sa = mk(si.Key, LegacyDigest(t, i, noSep, uint32(ht)), false)
			sb = mk(kb, LegacyDigest(t, i, tail, uint32(ht)), true)
			in.ScriptSig = append(append(append([]byte{0x00}, push(sb)...), 0x00), push(sa)...)
			in.Wit = nil
		} else {
			kind = "bip143"
			sa = mk(si.Key, SegwitDigest(t, i, full, coin.Value, uint32(ht)), false)
			sb = mk(kb, SegwitDigest(t, i, tail, amount, uint32(ht)), true)
			in.ScriptSig = nil
			in.Wit = [][]byte{{}, sb, {}, sa, full}
		}
	case KTrue:
		in.ScriptSig, in.Wit = nil, nil
		valid = true
	case KP2SHTrue:
		in.ScriptSig, in.Wit = []byte{0x01, 0x51}, nil
		valid = true
	case KP2SHZeroMulti:
		in.ScriptSig, in.Wit = push(zeroMultiRedeem), nil
		valid = true
	case KP2WSHTrue:
		in.ScriptSig, in.Wit = nil, [][]byte{{0x51}}
		valid = true
	default:
		valid = false
	}
	t.Valid[i] = valid
	t.Touch()
	return kind
}
