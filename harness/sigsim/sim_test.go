package sigsim

import (
	"testing"

	"verif/harness/hx"
)

func TestSim(t *testing.T) { hx.Main(t, H{}) }
