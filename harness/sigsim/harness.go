// Package sigsim: the cache clause of C02 - repeated and concurrent digest
// requests on ONE transaction object never change a result, whatever their order.
package sigsim

import (
	"bytes"
	"encoding/json"
	"fmt"
	"testing"

	"github.com/piotrnar/gocoin/lib/btc"

	"verif/harness/hx"
	"verif/harness/ledger"
	"verif/sim/simrt"
	"verif/sim/simsync"
)

const prop = "C02"

type Req struct {
	C     int    `json:"c"`
	Kind  string `json:"kind"` // legacy bip143 bip341 tapscript
	Idx   int    `json:"idx"`
	HT    uint32 `json:"ht"`
	Annex bool   `json:"annex,omitempty"`
	ID    int    `json:"id"`
}

type Cfg struct {
	Tx        *ledger.Tx    `json:"tx"`
	Spent     []ledger.Coin `json:"spent"`
	Clients   int           `json:"clients"`
	YieldP    float64       `json:"yield_p"`
	TimerP    float64       `json:"timer_p"`
	MaxConsec int           `json:"max_consec"`
	SchedSeed uint64        `json:"sched_seed"`
	PCT         int     `json:"pct"`
	PCTSteps    int     `json:"pct_steps"`
}

type H struct{}

func (H) Name() string { return "sigsim" }

var allHT = []uint32{0, 1, 2, 3, 0x81, 0x82, 0x83}

func (H) Gen(p string, seed uint64, tier string) *hx.Case {
	r := hx.NewRng(seed)
	w := ledger.NewWallet(11, 6)
	nin, nout := r.Range(1, 8), r.Range(1, 8)
	t := &ledger.Tx{Ver: uint32(r.Range(1, 2)), Lock: uint32(r.Intn(3)) * 500000}
	cfg := Cfg{Clients: r.Range(1, 8), MaxConsec: []int{20, 200, 2000}[r.Intn(3)], SchedSeed: r.U64()}
	cfg.YieldP = []float64{0, 0.1, 0.3, 0.6}[r.Intn(4)]
	if r.Chance(0.3) {
		cfg.PCT, cfg.PCTSteps = r.Range(1, 4), []int{50, 300, 2000, 10000}[r.Intn(4)]
	}
	kinds := []int{ledger.KP2PKH, ledger.KP2WPKH, ledger.KP2TR, ledger.KP2SHWPKH}
	for i := 0; i < nin; i++ {
		var op ledger.OutPoint
		copy(op.Hash[:], r.Bytes(32))
		op.N = uint32(r.Intn(4))
		seq := uint32(0xffffffff)
		if r.Chance(0.4) {
			seq = uint32(r.U64())
		}
		t.In = append(t.In, ledger.TxIn{Prev: op, Seq: seq})
		cfg.Spent = append(cfg.Spent, ledger.Coin{Value: uint64(r.Intn(1e9)) + 1000, Pk: w.Script(kinds[r.Intn(len(kinds))], r.Intn(6)), Height: 5})
	}
	for i := 0; i < nout; i++ {
		t.Out = append(t.Out, ledger.TxOut{Value: uint64(r.Intn(1e8)), Pk: w.Script(kinds[r.Intn(len(kinds))], r.Intn(6))})
	}
	cfg.Tx = t
	var ops []json.RawMessage
	n := r.Range(2, 64)
	for i := 0; i < n; i++ {
		q := Req{ID: i + 1, C: r.Intn(cfg.Clients), Idx: r.Intn(nin)}
		switch r.Pick(30, 35, 25, 10) {
		case 0:
			q.Kind = "legacy"
			q.HT = allHT[1+r.Intn(6)]
			if r.Chance(0.35) {
				q.HT = uint32(r.Intn(256)) // any byte: only bits 0-4 and bit 7 have a meaning, all of it is hashed
			}
			if r.Chance(0.1) {
				q.HT |= uint32(r.Intn(4)) << 8 // legacy hash types are 4 bytes wide
			}
		case 1:
			q.Kind = "bip143"
			q.HT = allHT[1+r.Intn(6)]
			if r.Chance(0.35) {
				q.HT = uint32(r.Intn(256))
			}
			if r.Chance(0.1) {
				q.HT |= uint32(r.Intn(4)) << 8
			}
		case 2:
			q.Kind = "bip341"
			q.HT = allHT[r.Intn(7)]
			q.Annex = r.Chance(0.2)
		default:
			q.Kind = "tapscript"
			q.HT = allHT[r.Intn(7)]
			q.Annex = r.Chance(0.2)
		}
		ops = append(ops, hx.J(q))
	}
	return &hx.Case{Cfg: hx.J(cfg), Ops: ops}
}

func newGoTx(cfg *Cfg) *btc.Tx {
	raw := cfg.Tx.Bytes(false)
	tx, n := btc.NewTx(raw)
	if tx == nil || n != len(raw) {
		return nil
	}
	tx.AllocVerVars()
	tx.Spent_outputs = make([]*btc.TxOut, len(cfg.Spent))
	for i, c := range cfg.Spent {
		tx.Spent_outputs[i] = &btc.TxOut{Value: c.Value, Pk_script: c.Pk, BlockHeight: c.Height}
	}
	return tx
}

func scriptCode(pk []byte) []byte {
	// P2PKH-style code for key hashes; otherwise the script itself
	if len(pk) == 22 && pk[0] == 0 {
		return append(append([]byte{0x76, 0xa9, 0x14}, pk[2:]...), 0x88, 0xac)
	}
	return pk
}

func execData(q *Req) *btc.ScriptExecutionData {
	ed := &btc.ScriptExecutionData{}
	if q.Annex {
		ed.M_annex_hash = bytes.Repeat([]byte{0x5a}, 32)
	}
	if q.Kind == "tapscript" {
		ed.M_tapleaf_hash = bytes.Repeat([]byte{0x77}, 32)
		ed.M_codeseparator_pos = 0xffffffff
		ed.M_codeseparator_pos_init = true
	}
	return ed
}

func digest(tx *btc.Tx, cfg *Cfg, q *Req) []byte {
	c := cfg.Spent[q.Idx]
	switch q.Kind {
	case "legacy":
		return tx.SignatureHash(scriptCode(c.Pk), q.Idx, int32(q.HT))
	case "bip143":
		return tx.WitnessSigHash(scriptCode(c.Pk), c.Value, q.Idx, int32(q.HT))
	default:
		return tx.TaprootSigHash(execData(q), q.Idx, byte(q.HT), q.Kind == "tapscript")
	}
}

// reference digest from the harness's own implementation (where it covers the request)
func reference(cfg *Cfg, q *Req) ([]byte, bool) {
	c := cfg.Spent[q.Idx]
	switch q.Kind {
	case "legacy":
		d := ledger.LegacyDigest(cfg.Tx, q.Idx, scriptCode(c.Pk), q.HT)
		return d[:], true
	case "bip143":
		d := ledger.SegwitDigest(cfg.Tx, q.Idx, scriptCode(c.Pk), c.Value, q.HT)
		return d[:], true
	case "bip341":
		if q.Annex {
			return nil, false
		}
		d, ok := ledger.TaprootDigest(cfg.Tx, q.Idx, cfg.Spent, byte(q.HT))
		if !ok {
			return nil, false
		}
		return d[:], true
	}
	return nil, false
}

type result struct {
	q *Req
	d []byte
}

func (H) Run(t *testing.T, c *hx.Case) *hx.Outcome {
	out := &hx.Outcome{}
	cfg := &Cfg{}
	if err := json.Unmarshal(c.Cfg, cfg); err != nil || cfg.Tx == nil || len(cfg.Spent) != len(cfg.Tx.In) {
		out.Inconclusive = "bad cfg"
		return out
	}
	if cfg.Clients < 1 {
		cfg.Clients = 1
	}
	var reqs []*Req
	for _, raw := range c.Ops {
		var q Req
		if json.Unmarshal(raw, &q) == nil && q.Idx < len(cfg.Tx.In) {
			q.C = q.C % cfg.Clients
			reqs = append(reqs, &q)
		}
	}
	shared := newGoTx(cfg)
	if shared == nil {
		out.Inconclusive = "transaction does not parse"
		return out
	}
	// the odd-numbered clients work on a second object of the same transaction: in the node the inputs of MANY
	// transactions are verified at once, and whatever the digest code shares between objects (pre-built hashers,
	// scratch buffers) is then used concurrently although each object's own lock is held
	second := newGoTx(cfg)
	obj := func(cl int) *btc.Tx {
		if cl%2 == 1 && cfg.Clients > 1 {
			return second
		}
		return shared
	}
	if cfg.SchedSeed%8 == 0 && len(shared.TxIn) > 0 {
		// a first request comes while one of the spent outputs is not known yet (the web UI asks for transactions
		// with unknown inputs): it fails - it must not leave anything behind that later requests would use
		j := int(cfg.SchedSeed>>8) % len(shared.TxIn)
		keep := shared.Spent_outputs[j]
		shared.Spent_outputs[j] = nil
		func() {
			defer func() { recover() }()
			shared.TaprootSigHash(&btc.ScriptExecutionData{M_codeseparator_pos: 0xffffffff}, 0, 0, false)
		}()
		shared.Spent_outputs[j] = keep
		out.Probe("failed_request_before_the_spent_outputs_were_complete", 1)
	}
	results := make([][]result, cfg.Clients)
	res := simrt.Run(simrt.Config{Seed: cfg.SchedSeed, YieldP: cfg.YieldP, TimerP: cfg.TimerP, MaxConsec: cfg.MaxConsec, PCT: cfg.PCT, PCTSteps: cfg.PCTSteps, StepBudget: 5_000_000}, func() {
		var wg simsync.WaitGroup
		for cl := 0; cl < cfg.Clients; cl++ {
			cl := cl
			wg.Add(1)
			simrt.Go(func() {
				defer wg.Done()
				for _, q := range reqs {
					if q.C == cl {
						results[cl] = append(results[cl], result{q, digest(obj(cl), cfg, q)})
					}
				}
			})
		}
		wg.Wait()
	})
	out.Evals = 1
	out.Sample = map[string]any{"inputs": len(cfg.Tx.In), "outputs": len(cfg.Tx.Out), "clients": cfg.Clients, "requests": len(reqs), "yield_p": cfg.YieldP}
	if !out.Absorb(prop, "digests", &res) {
		return out
	}
	h := uint64(0)
	for cl := range results {
		for _, rr := range results[cl] {
			q := rr.q
			fresh := digest(newGoTx(cfg), cfg, q)
			if !bytes.Equal(fresh, rr.d) {
				out.Violate(prop, "cache.order-dependent", "request #%d (%s input %d hash type %#x annex=%v) on the shared transaction object returned %x; the same single request on a fresh object returns %x", q.ID, q.Kind, q.Idx, q.HT, q.Annex, rr.d, fresh)
				return out
			}
			if ref, ok := reference(cfg, q); ok {
				out.Probe("compared_with_reference_"+q.Kind, 1)
				if !bytes.Equal(ref, rr.d) {
					out.Violate(prop, "digest."+q.Kind, "request #%d (%s input %d of %d, %d outputs, hash type %#x): gocoin returns %x, the definition gives %x", q.ID, q.Kind, q.Idx, len(cfg.Tx.In), len(cfg.Tx.Out), q.HT, rr.d, ref)
					return out
				}
			} else {
				out.Probe("fresh_object_only_"+q.Kind, 1)
			}
			h = hx.HashBytes(h, rr.d)
		}
	}
	out.StateHash = fmt.Sprintf("%x", h)
	return out
}
