package chainsim

import (
	"fmt"
	"runtime"
	"strings"

	"github.com/piotrnar/gocoin/lib/btc"
	"github.com/piotrnar/gocoin/lib/others/bech32"
	"github.com/piotrnar/gocoin/lib/script"

	"verif/harness/hx"
	"verif/harness/ledger"
)

// The last sentence of C18 names the library entry points that parse untrusted data.  Most of them are reached through
// the message handlers; this arm calls them directly with well-formed values taken from the node's state after one
// structural mutation (or random bytes).  There is no schedule in it - a panic that escapes the call is the violation,
// a loop without end is cut by the wall-clock watchdog.

var libTargets = []string{"tx", "tx", "block", "block", "txsize", "addr-string", "addr-script", "script-scan", "pubkey", "signature",
	"verify-script", "verify-script", "multisig", "strings", "vlen", "netaddr"}

func exact(b []byte) []byte { return append(make([]byte, 0, len(b)), b...) }

func mutateBytes(r *hx.Rng, b []byte) []byte {
	b = exact(b)
	switch r.Intn(10) {
	case 0: // unchanged
	case 1, 2:
		for k := 1 + r.Intn(3); k > 0 && len(b) > 0; k-- {
			b[r.Intn(len(b))] ^= 1 << uint(r.Intn(8))
		}
	case 3:
		if len(b) > 0 {
			b = b[:r.Intn(len(b))]
		}
	case 4:
		b = append(b, r.Bytes(1+r.Intn(40))...)
	case 5, 6:
		// a length / count byte replaced by a CompactSize escape
		if len(b) > 0 {
			i := r.Intn(len(b))
			esc := [][]byte{{0xfd, 0xff, 0xff}, {0xfe, 0xff, 0xff, 0xff, 0x7f}, {0xff, 0, 0, 0, 0, 0, 0, 0, 0x80}, {0xff, 0xff, 0xff, 0xff, 0xff, 0xff, 0xff, 0xff, 0xff}, {0xff}, {0xfd}, {0x4c}, {0x4d, 0xff}, {0x4e, 0xff, 0xff, 0xff}}[r.Intn(9)]
			b = append(append(append([]byte{}, b[:i]...), esc...), b[i+1:]...)
		}
	case 7:
		b = nil
	case 8:
		b = r.Bytes(r.Intn(120))
	case 9:
		if len(b) > 1 {
			i := r.Intn(len(b) - 1)
			b[i], b[i+1] = 0xff, 0xff
		}
	}
	return exact(b)
}

func mutateString(r *hx.Rng, s string) string {
	b := []byte(s)
	switch r.Intn(8) {
	case 0:
	case 1, 2:
		if len(b) > 0 {
			b[r.Intn(len(b))] = "0OIl1qpzry9x8gf2tvdw0s3jn54khce6mua7LbBQ!\x00\xff "[r.Intn(44)]
		}
	case 3:
		if len(b) > 0 {
			b = b[:r.Intn(len(b))]
		}
	case 4:
		b = append(b, b...)
	case 5:
		b = []byte(strings.ToUpper(s))
	case 6:
		b = nil
	case 7:
		b = r.Bytes(r.Intn(100))
	}
	return string(b)
}

func (n *netRun) libCall(m *NetMsg, r *hx.Rng) {
	target := libTargets[r.Intn(len(libTargets))]
	n.out.Probe("lib_"+target, 1)
	var what string
	call := func(name string, f func()) {
		what = name
		defer func() {
			if e := recover(); e != nil && !n.bad {
				buf := make([]byte, 4096)
				buf = buf[:runtime.Stack(buf, false)]
				where := name
				for _, l := range strings.Split(string(buf), "\n") {
					if strings.HasPrefix(l, "github.com/piotrnar/gocoin/") {
						where = strings.TrimPrefix(l[:strings.LastIndex(l, "(")], "github.com/piotrnar/gocoin/")
						where = where[strings.LastIndex(where, "/")+1:]
						break
					}
				}
				n.out.Violate("C18", "lib.panic:"+where, "op#%d: library entry point %s panics on untrusted input: %v", m.ID, name, e)
				n.bad = true
			}
		}()
		f()
	}
	_ = what
	var txb []byte
	var ltx *ledger.Tx
	if ltx = n.someTx(r); ltx != nil {
		txb = ltx.Bytes(true)
	}
	pk := n.m.W.Script([]int{ledger.KP2PKH, ledger.KP2WPKH, ledger.KP2TR, ledger.KP2SHWPKH}[r.Intn(4)], r.Intn(6))
	switch target {
	case "tx":
		b := mutateBytes(r, txb)
		call("btc.NewTx", func() {
			tx, le := btc.NewTx(b)
			if tx == nil || le <= 0 || le > len(b) {
				return
			}
			tx.SetHash(b[:le])
			tx.CheckTransaction()
			tx.GetLegacySigOpCount()
			tx.Weight()
			tx.IsFinal(100, 100)
			tx.Serialize()
			tx.WTxID()
			for i := range tx.TxIn {
				tx.CountWitnessSigOps(i, pk)
			}
		})
	case "block":
		var bb []byte
		if n.model.Blk != nil {
			bb = n.model.Blk.Bytes()
		}
		b := mutateBytes(r, bb)
		call("btc.NewBlock+BuildTxList", func() {
			bl, er := btc.NewBlock(b)
			if er != nil || bl == nil {
				return
			}
			if bl.BuildTxList() == nil {
				bl.MerkleRootMatch()
				bl.GetUserInfo()
			}
		})
	case "txsize":
		b := mutateBytes(r, txb)
		call("btc.TxSize", func() { btc.TxSize(b) })
	case "addr-string":
		var s string
		if a := btc.NewAddrFromPkScript(pk, false); a != nil {
			s = a.String()
		}
		s = mutateString(r, s)
		call("btc.NewAddrFromString", func() {
			if a, _ := btc.NewAddrFromString(s); a != nil {
				a.String()
				a.OutScript()
			}
			bech32.Decode(s)
			btc.Decodeb58(s)
		})
	case "addr-script":
		b := mutateBytes(r, pk)
		call("btc.NewAddrFromPkScript", func() {
			if a := btc.NewAddrFromPkScript(b, r.Chance(0.5)); a != nil {
				a.String()
			}
		})
	case "script-scan":
		b := mutateBytes(r, pk)
		if r.Chance(0.5) && ltx != nil && len(ltx.In) > 0 {
			b = mutateBytes(r, ltx.In[0].ScriptSig)
		}
		call("btc script scanners", func() {
			btc.GetSigOpCount(b, true)
			btc.GetSigOpCount(b, false)
			btc.GetP2SHSigOpCount(b)
			btc.IsWitnessProgram(b)
			btc.IsPushOnly(b)
			btc.IsP2SH(b)
			btc.IsPayToScript(b)
			for i := 0; i < len(b); {
				_, _, le, e := btc.GetOpcode(b[i:])
				if e != nil || le <= 0 {
					break
				}
				i += le
			}
		})
	case "pubkey", "signature":
		var item []byte
		if ltx != nil {
			for _, in := range ltx.In {
				for _, w := range in.Wit {
					if (target == "pubkey") == (len(w) == 33) {
						item = w
					}
				}
			}
		}
		b := mutateBytes(r, item)
		if target == "pubkey" {
			call("btc.NewPublicKey", func() { btc.NewPublicKey(b) })
		} else {
			call("btc.NewSignature", func() { btc.NewSignature(b) })
		}
	case "verify-script":
		if r.Chance(0.5) {
			// prefer a taproot spend: its witness is parsed (annex, control block, leaf script) outside the interpreter's recover()
			for tries := 0; tries < 8 && !(len(n.lastSpent) == 34 && n.lastSpent[0] == 0x51); tries++ {
				if t := n.someTx(r); t != nil {
					ltx, txb = t, t.Bytes(true)
				}
			}
		}
		if ltx == nil {
			return
		}
		tx, le := btc.NewTx(exact(txb))
		if tx == nil {
			return
		}
		tx.SetHash(txb[:le])
		spk := mutateBytes(r, pk)
		if r.Chance(0.5) && n.lastSpent != nil {
			spk = exact(n.lastSpent) // the script this input really spends: the witness below is (nearly) the right one for it
		}
		if r.Chance(0.5) {
			tx.TxIn[0].ScriptSig = mutateBytes(r, tx.TxIn[0].ScriptSig)
		}
		if tx.SegWit != nil && len(tx.SegWit[0]) == 1 && len(spk) == 34 && spk[0] == 0x51 && r.Chance(0.5) {
			tx.SegWit[0] = append(tx.SegWit[0], []byte{0x51}, []byte{0xc0}) // a key-path spend turned into a script-path attempt
		}
		if tx.SegWit != nil && len(tx.SegWit[0]) >= 2 && r.Chance(0.5) {
			// the last witness item (control block of a script-path spend, public key, witness script) cut or padded to a length at an edge
			last := len(tx.SegWit[0]) - 1
			it := tx.SegWit[0][last]
			want := []int{0, 1, 2, 31, 32, 33, 34, 64, 65, 66, 97}[r.Intn(11)]
			for len(it) < want {
				it = append(it, byte(r.Intn(256)))
			}
			tx.SegWit[0][last] = exact(it[:want])
			n.out.Probe("lib_witness_last_item_at_an_edge_length", 1)
		}
		if r.Chance(0.3) && tx.SegWit != nil && len(tx.SegWit[0]) > 0 {
			k := r.Intn(len(tx.SegWit[0]))
			tx.SegWit[0][k] = mutateBytes(r, tx.SegWit[0][k])
		}
		// flag sets are the caller's choice, not untrusted input: only combinations the interpreter accepts
		// (CLEANSTACK and WITNESS presuppose P2SH)
		flags := uint32(r.U64()) | script.VER_P2SH
		if r.Chance(0.6) {
			flags = script.STANDARD_VERIFY_FLAGS
		}
		tx.AllocVerVars()
		tx.Spent_outputs = make([]*btc.TxOut, len(tx.TxIn))
		for i := range tx.Spent_outputs {
			tx.Spent_outputs[i] = &btc.TxOut{Value: 5000, Pk_script: spk}
		}
		prev := script.DBG_ERR
		script.DBG_ERR = false
		call("script.VerifyTxScript", func() {
			script.VerifyTxScript(spk, &script.SigChecker{Amount: 5000, Idx: 0, Tx: tx}, flags)
		})
		script.DBG_ERR = prev
	case "multisig":
		b := mutateBytes(r, append([]byte{0x52, 0x21}, append(r.Bytes(33), append([]byte{0x21}, append(r.Bytes(33), 0x52, 0xae)...)...)...))
		call("btc.NewMultiSigFromScript", func() {
			btc.NewMultiSigFromScript(b)
			btc.NewMultiSigFromP2SH(b)
		})
	case "strings":
		s := mutateString(r, []string{"5HueCGU8rMjxEXxiPuD5BDku4MkFqeZyd4dZ1jvhTVqvbTLvyTJ", "OP_DUP OP_HASH160 0x14 0x0102030405060708090a0b0c0d0e0f1011121314 OP_EQUALVERIFY OP_CHECKSIG", "00000000000000000001a2b3c4d5e6f700000000000000000001a2b3c4d5e6f7", "H/6sjXl3wyN7QkVnJ0qSsvkgX5xzN2xCTRLmO7rpXIFdqJxWq3vSzvFYJiEn+Yq0U6Vd0Ge3G4cXNZuQSBi/2Ig="}[r.Intn(4)])
		call("btc string decoders", func() {
			btc.DecodePrivateAddr(s)
			btc.DecodeScript(s)
			btc.NewUint256FromString(s)
			btc.ParseMessageSignature(s)
		})
	case "vlen":
		b := mutateBytes(r, []byte{0xfd, 0x03, 0x01})
		call("btc.VLen", func() { btc.VLen(b) })
	case "netaddr":
		b := mutateBytes(r, netAddr(r, false))
		call("btc.NewNetAddr", func() {
			if len(b) >= 26 {
				btc.NewNetAddr(b)
			}
		})
	}
	_ = fmt.Sprint
}
