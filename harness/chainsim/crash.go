package chainsim

// C07: crash images.  One execution of a history yields its complete
// file-system effect log; the data directory "as the kernel had it" just before
// effect k is materialised for the chosen k, opened by a fresh node, judged,
// and then fed the rest of the history.

import (
	"bytes"
	"encoding/binary"
	"fmt"
	"os"
	"path/filepath"
	"sort"
	"strings"
	"time"

	"github.com/piotrnar/gocoin/lib/btc"

	"verif/harness/hx"
	"verif/harness/ledger"
	"verif/sim/simos"
	"verif/sim/simrt"
)

func (r *run) pickCrashPoints(log []simos.Effect, want int, seed uint64) []int {
	var cand []int
	for i := range log {
		if log[i].Mutating() {
			cand = append(cand, i)
		}
	}
	if want < 0 && len(cand) > 600 {
		want = 600 // thorough tier: every crash point of a history, unless it has more than 600 (then a weighted sample of 600: one case must not take an hour)
	}
	if want < 0 || len(cand) <= want {
		return cand
	}
	rng := hx.NewRng(seed ^ 0xC0A5)
	w := make([]int, len(cand))
	total := 0
	for ci, i := range cand {
		e := &log[i]
		w[ci] = 1
		base := filepath.Base(e.Path)
		switch e.Kind {
		case simos.KRename, simos.KRemove, simos.KCreate, simos.KTruncate:
			w[ci] = 8
		case simos.KWrite:
			if base == "blockchain.new" {
				w[ci] = 3 // index record
				if len(e.Data) == 1 {
					w[ci] = 12 // a flag byte rewritten in place: one of several when a branch is marked invalid
				}
			}
			if strings.HasSuffix(base, ".db.tmp") {
				w[ci] = 2
			}
			if base == "UTXO.db" || base == "UTXO.old" {
				w[ci] = 8 // a snapshot file written in place
			}
		}
		if e.G != "0" {
			w[ci] *= 2 // issued by a background goroutine (snapshot writer, undo writer)
		}
		total += w[ci]
	}
	chosen := map[int]bool{}
	// always: the instant right after a snapshot has become visible under its final name (what the block index
	// and the undo files hold at that very moment is what a restart from this snapshot will find)
	for i := range log {
		if log[i].Kind == simos.KRename && filepath.Base(log[i].Path2) == "UTXO.db" && i+1 < len(log) && len(chosen) < want/2 {
			chosen[i+1] = true
		}
	}
	for n := 0; n < want*4 && len(chosen) < want; n++ {
		x := rng.Intn(total)
		for ci, wt := range w {
			if x < wt {
				chosen[cand[ci]] = true
				break
			}
			x -= wt
		}
	}
	var res []int
	for i := range chosen {
		res = append(res, i)
	}
	sort.Ints(res)
	return res
}

func describeEffects(log []simos.Effect, k int) string {
	s := fmt.Sprintf("crash image = effects[0:%d] of %d", k, len(log))
	one := func(e *simos.Effect) string {
		t := fmt.Sprintf("%s %s", e.Kind, e.Path)
		if e.Kind == simos.KWrite {
			t += fmt.Sprintf("@%d+%d", e.Off, len(e.Data))
		}
		if e.Path2 != "" {
			t += "->" + e.Path2
		}
		return t + " (g" + e.G + ")"
	}
	if k < len(log) {
		s += "; next effect would be " + one(&log[k])
	}
	lo := k - 8
	if lo < 0 {
		lo = 0
	}
	s += "; preceding:"
	for i := lo; i < k && i < len(log); i++ {
		s += fmt.Sprintf(" [%d %s]", i, one(&log[i]))
	}
	return s
}

// crashImages recovers the chosen crash images of the history just executed.
func (r *run) crashImages(root, template string, log []simos.Effect, seed uint64, want int) {
	final := r.model
	points := r.pickCrashPoints(log, want, seed)
	points = append(points, len(log))
	for _, k := range points {
		if !r.recoverImage(root, template, log, k, -1, final) {
			return
		}
	}
	// prefix truncations of the newest block DATA file (the index keeps the records of the blocks that lost
	// their bytes): a few bytes, half a block, one block and a bit
	drng := hx.NewRng(seed ^ 0xDA7A)
	dcuts := []int{1 + drng.Intn(40), 200 + drng.Intn(600), 1500 + drng.Intn(9000), 12000 + drng.Intn(40000)}
	if want >= 0 {
		k := drng.Intn(3)
		dcuts = []int{dcuts[k], dcuts[3]} // quick tier: one of the small cuts, and the big one
	}
	for _, c := range dcuts {
		r.dataCut = c
		ok := r.recoverImage(root, template, log, len(log), -1, final)
		r.dataCut = 0
		if !ok {
			return
		}
	}
	// prefix truncations of the append-only block index (the data file keeps its - then unreferenced - tail):
	// the last records are lost, at record boundaries and inside a record
	idx, err := os.ReadFile(filepath.Join(r.dir, "blockchain.new"))
	if err != nil {
		return
	}
	n := len(idx) / 136
	rng := hx.NewRng(seed ^ 0x7C)
	var cuts []int
	for back := 1; back <= 6 && back <= n-r.cfg.plen()+2; back++ {
		cuts = append(cuts, (n-back)*136)
	}
	if n > 2 {
		cuts = append(cuts, (n-1)*136+1+rng.Intn(135), (n-2)*136+1+rng.Intn(135))
	}
	if want >= 0 && len(cuts) > 4 {
		// quick tier: a seeded subset
		for i := len(cuts) - 1; i > 0; i-- {
			j := rng.Intn(i + 1)
			cuts[i], cuts[j] = cuts[j], cuts[i]
		}
		cuts = cuts[:4]
	}
	for _, c := range cuts {
		if c < 0 {
			continue
		}
		if !r.recoverImage(root, template, log, len(log), c, final) {
			return
		}
	}
}

// truncIdx >= 0: additionally truncate blockchain.new of the image to that many bytes.
func (r *run) recoverImage(root, template string, log []simos.Effect, k int, truncIdx int, final *ledger.Node) bool {
	img := filepath.Join(root, "img")
	os.RemoveAll(img)
	if err := simos.Materialize(template, log, k, -1, img); err != nil {
		fmt.Fprintln(os.Stderr, "chainsim: cannot materialise crash image:", err)
		os.Exit(2)
	}
	os.Remove(filepath.Join(img, "ok"))
	defer os.RemoveAll(img)
	out := r.out
	out.Evals++
	truncNote := ""
	if truncIdx >= 0 {
		if err := os.Truncate(filepath.Join(img, "blockchain.new"), int64(truncIdx)); err != nil {
			return true
		}
		out.Fault("block_index_prefix_truncation", 1)
		truncNote = fmt.Sprintf("block index truncated to %d bytes (%d records + %d bytes); ", truncIdx, truncIdx/136, truncIdx%136)
		if truncIdx%136 != 0 {
			out.Probe("truncation_inside_a_record", 1)
		}
	} else if r.dataCut > 0 {
		newest := ""
		if ents, err := os.ReadDir(img); err == nil {
			for _, e := range ents {
				if nm := e.Name(); strings.HasPrefix(nm, "bl") && strings.HasSuffix(nm, ".dat") && nm > newest {
					newest = nm
				}
			}
		}
		st, err := os.Stat(filepath.Join(img, newest))
		if newest == "" || err != nil || st.Size() <= int64(r.dataCut) {
			return true
		}
		os.Truncate(filepath.Join(img, newest), st.Size()-int64(r.dataCut))
		out.Fault("block_data_prefix_truncation", 1)
		truncNote = fmt.Sprintf("block data file %s truncated by %d bytes to %d (the index still lists the blocks that lost bytes); ", newest, r.dataCut, st.Size()-int64(r.dataCut))
	} else {
		out.Fault("process_death_at_fs_effect", 1)
	}
	if k < len(log) {
		e := &log[k]
		base := filepath.Base(e.Path)
		switch {
		case base == "UTXO.db" || base == "UTXO.old" || strings.HasSuffix(base, ".db.tmp") || strings.HasSuffix(filepath.Base(e.Path2), "UTXO.db"):
			out.Probe("crash_in_snapshot_save", 1)
			if e.Kind == simos.KRename && base == "UTXO.db" {
				out.Probe("crash_between_utxo_renames", 1)
			}
		case strings.Contains(e.Path, "undo"):
			out.Probe("crash_in_undo_write", 1)
		case base == "blockchain.new":
			if e.Kind == simos.KWrite && len(e.Data) == 1 {
				out.Probe("crash_at_flag_rewrite", 1)
			} else {
				out.Probe("crash_before_index_record", 1)
			}
		case strings.HasSuffix(base, ".dat"):
			out.Probe("crash_before_block_data", 1)
		}
		if e.G != "0" {
			out.Probe("crash_in_background_goroutine", 1)
		}
	}
	desc := truncNote + describeEffects(log, k)
	simos.Reset(img)
	ok := true
	// undo files are named by height only.  Does the image hold, for a height of the SNAPSHOT's chain,
	// undo data written by a block of another branch?  (Until fix 7fe5b207 recovery and later reorganisations used
	// it - a listed finding for most of the build; now it only annotates a violation's message.)
	staleUndo := ""
	for _, fn := range []string{"UTXO.db", "UTXO.old"} {
		d, err := os.ReadFile(filepath.Join(img, fn))
		if err != nil || len(d) < 48 {
			continue
		}
		var sh [32]byte
		copy(sh[:], d[8:40])
		for p := r.l.Nodes[sh]; p != nil && p.Blk != nil && !r.isPrefix[p.Hash]; p = p.Parent {
			if u, err := os.ReadFile(filepath.Join(img, "undo", fmt.Sprint(p.Height))); err == nil && len(u) >= 32 {
				var fh [32]byte
				copy(fh[:], u[:32])
				if fh != p.Hash {
					staleUndo = fmt.Sprintf("%s is at block %s; undo/%d holds the undo data of block %s, but the snapshot's chain has %s at that height", fn, hs(sh), p.Height, hs(fh), hs(p.Hash))
				}
			}
		}
		break
	}
	if staleUndo != "" {
		out.Probe("image_has_undo_file_of_other_branch", 1)
	}
	sub := &run{prop: r.prop, cfg: r.cfg, out: out, dir: img, l: r.l, nodes: r.nodes, status: map[[32]byte]int{}, waiting: map[[32]byte][]int{}}
	cfg2 := *r.cfg
	cfg2.ClientRecovery = (k%2 == 0) != r.cfg.ClientRecovery
	cfg2.RealAlloc = false // (recovery images are about the disk; the allocator is exercised by the live history)
	sub.cfg = &cfg2
	sub.lenientTip = true
	res := simrt.Run(simrt.Config{Seed: r.cfg.SchedSeed ^ uint64(k)*0x9E37, YieldP: r.cfg.YieldP / 2, MaxConsec: r.cfg.MaxConsec, StepBudget: 30_000_000}, func() {
		sub.boot()
		th, theight := sub.n.Tip()
		tn := r.l.Nodes[th]
		if tn == nil {
			r.viol("crash.tip-unknown", "after reopening a crash image the tip %s (height %d) is not a block of the history. %s", hs(th), theight, desc)
			ok = false
			return
		}
		if !tn.Valid() {
			r.viol("crash.tip-invalid", "after reopening a crash image the tip %s (height %d) is a block the reference ledger calls invalid (%s). %s", hs(th), theight, tn.Clause, desc)
			ok = false
			return
		}
		// every block of the recovered chain was handed to the node before the crash
		for p := tn; p != nil && p.Blk != nil && int(p.Height) > r.cfg.plen()-8; p = p.Parent {
			if at, seen := r.delivAt[p.Hash]; (!seen || at > k) && !r.isPrefix[p.Hash] {
				r.viol("crash.tip-from-the-future", "after reopening a crash image the chain contains block %s which had not been delivered before the crash. %s", hs(p.Hash), desc)
				ok = false
				return
			}
		}
		if d := diffUTXO(sub.n.Dump(), tn.UTXO()); d != "" {
			cl := "crash.utxo-mismatch"
			if staleUndo != "" {
				desc = staleUndo + " | " + desc
			}
			r.viol(cl, "after reopening a crash image the tip is %s (height %d) but the unspent set is not the replay of its chain: %s. %s", hs(th), theight, d, desc)
			ok = false
			return
		}
		// the recovered node knows what it knows; feed it the whole history again (in history order)
		sub.model = tn
		for p := tn; p != nil; p = p.Parent {
			sub.status[p.Hash] = 1
		}
		// blocks that are in the recovered index but not on the chain: learn them from the node (bookkeeping only)
		sub.n.Ch.BlockIndexAccess.Lock()
		for _, ln := range r.nodes {
			if ln != nil && sub.status[ln.Hash] == 0 {
				if _, present := sub.n.Ch.BlockIndex[bidx(ln.Hash)]; present {
					sub.status[ln.Hash] = 1
				}
			}
		}
		sub.n.Ch.BlockIndexAccess.Unlock()
		// stored valid blocks with accepted ancestry may already beat the tip only if the node did not re-apply them
		order := r.delivOrder
		if r.dataCut > 0 {
			// The blocks that lost bytes do not come back as they were stored the first time: first the biggest
			// block the node can take (one record where several may have been lost, bytes that may reach beyond
			// the old end of the file), then a clean restart - whatever the cut left behind in the index must
			// not be taken for a stored block - then the rest.
			big := -1
			for _, bi := range order {
				ln := r.nodes[bi]
				if ln == nil || !ln.Valid() || sub.status[ln.Hash] == 1 || ln.Parent == nil || sub.status[ln.Parent.Hash] != 1 {
					continue
				}
				if big < 0 || len(ln.Blk.Bytes()) > len(r.nodes[big].Blk.Bytes()) {
					big = bi
				}
			}
			if big >= 0 {
				sub.now = time.Now().Unix()
				sub.deliver(big, fmt.Sprintf("re-feeding block[%d] (the biggest one first) after crash recovery", big))
				if !sub.bad {
					th0, _ := sub.n.Tip()
					sub.n.Close()
					sub.boot()
					out.Probe("restart_after_partial_refeed", 1)
					if th1, _ := sub.n.Tip(); th1 != th0 {
						r.viol("crash.second-restart", "after the recovery of a truncated data file, one re-fed block and a clean restart the tip is %s, before the restart it was %s. %s", hs(th1), hs(th0), desc)
						ok = false
						return
					}
					sub.n.Ch.BlockIndexAccess.Lock()
					for _, ln := range r.nodes {
						if ln == nil || sub.status[ln.Hash] != 0 {
							continue
						}
						if nd, present := sub.n.Ch.BlockIndex[bidx(ln.Hash)]; present && nd.BlockSize > 0 {
							sub.n.Ch.BlockIndexAccess.Unlock()
							r.viol("crash.second-restart", "after the recovery of a truncated data file, one re-fed block and a clean restart the index lists block %s (height %d), which has not been stored since the recovery: a record the truncation left behind. %s", hs(ln.Hash), ln.Height, desc)
							ok = false
							return
						}
					}
					sub.n.Ch.BlockIndexAccess.Unlock()
				}
			}
		}
		for _, bi := range order {
			if sub.bad {
				break
			}
			ln := r.nodes[bi]
			if ln == nil || sub.status[ln.Hash] == 1 {
				continue
			}
			sub.now = time.Now().Unix() // (not r.now: that is the instant the live run's last operation STARTED)
			sub.deliver(bi, fmt.Sprintf("re-feeding block[%d] after crash recovery", bi))
		}
		if os.Getenv("VSIM_DEBUG") != "" {
			fmt.Fprintf(os.Stderr, "DBG refeed done: sub.bad=%v violations=%d staleUndo=%q desc=%s\n", sub.bad, len(out.Violations), staleUndo, desc)
		}
		if sub.bad {
			// the violation has been recorded by sub.viol through the shared outcome
			ok = false
			for i := range out.Violations {
				if !strings.Contains(out.Violations[i].Msg, "crash image") {
					out.Violations[i].Class = "crash.refeed." + out.Violations[i].Class
					if staleUndo != "" {
						out.Violations[i].Msg += " | " + staleUndo
					}
					out.Violations[i].Msg += " | " + desc
				}
			}
			return
		}
		// same final state as the uninterrupted twin (an equal-work, equally valid tip is tolerated: first-seen order is not durable)
		fh, _ := sub.n.Tip()
		fn := r.l.Nodes[fh]
		if fn != nil && fn.Valid() && fn.CumWork.Cmp(final.CumWork) > 0 {
			// blocks that were refused as "too far in the future" during the uninterrupted run are acceptable at
			// the (later) clock of the re-feeding: ending higher than the twin is then the right answer
			out.Probe("refeed_ended_on_more_work_than_the_twin", 1)
		} else if fn == nil || !fn.Valid() || fn.CumWork.Cmp(final.CumWork) != 0 {
			r.viol("crash.final-state", "after crash recovery and re-feeding the history the tip is %s (work %v), the uninterrupted run ended in %s (work %s). %s", hs(fh), workOf(fn), hs(final.Hash), final.CumWork.String(), desc)
			ok = false
			return
		}
		if fh != final.Hash {
			out.Probe("final_tip_equal_work_but_other", 1)
		}
		if d := diffUTXO(sub.n.Dump(), fn.UTXO()); d != "" {
			r.viol("crash.final-utxo", "after crash recovery and re-feeding the history the unspent set is not the replay of the tip's chain: %s. %s", d, desc)
			ok = false
			return
		}
		// a clean shutdown and one more restart: what was appended after the recovery must have gone to the right
		// places in the block files (a record torn by the crash may be followed by new records)
		sub.n.Close()
		sub.boot()
		if h2, _ := sub.n.Tip(); h2 != fh {
			r.viol("crash.second-restart", "after crash recovery, re-feeding the history and a clean restart the tip is %s, before the restart it was %s. %s", hs(h2), hs(fh), desc)
			ok = false
			return
		}
		if d := diffUTXO(sub.n.Dump(), fn.UTXO()); d != "" {
			r.viol("crash.second-restart", "after crash recovery, re-feeding the history and a clean restart the unspent set is not the replay of the tip's chain: %s. %s", d, desc)
			ok = false
			return
		}
		// every accepted valid block must still be readable from the block store
		for _, bi := range r.delivOrder {
			ln := r.nodes[bi]
			if ln == nil || !ln.Valid() || sub.status[ln.Hash] != 1 {
				continue
			}
			d, _, e := sub.n.Ch.Blocks.BlockGet(btc.NewUint256(ln.Hash[:]))
			if e != nil || !bytes.Equal(d, ln.Blk.Bytes()) {
				r.viol("crash.second-restart", "after crash recovery, re-feeding the history and a clean restart block %s (height %d) cannot be read back from the block store (%v). %s", hs(ln.Hash), ln.Height, e, desc)
				ok = false
				return
			}
		}
		out.Probe("second_restart_after_recovery", 1)
		sub.n.Close()
	})
	phase := "recovery"
	if truncIdx >= 0 {
		phase = "recovery-after-truncation"
	} else if r.dataCut > 0 {
		phase = "recovery-after-data-truncation"
	}
	if !out.Absorb(r.prop, phase, &res) {
		if n := len(out.Violations); n > 0 {
			if (truncIdx >= 0 || r.dataCut > 0) && snapshotBeyondIndex(img) {
				out.Violations[n-1].Class = "truncation.snapshot-block-not-in-index"
			}
			if staleUndo != "" {
				out.Violations[n-1].Msg += " | " + staleUndo
			}
			out.Violations[n-1].Msg += " | " + desc
		}
		return false
	}
	if !ok {
		r.bad = true
	}
	return ok
}

func workOf(n *ledger.Node) string {
	if n == nil {
		return "unknown block"
	}
	return n.CumWork.String()
}

// snapshotBeyondIndex: does the snapshot in img name a block whose header is not among the index records?
func snapshotBeyondIndex(img string) bool {
	snap, err := os.ReadFile(filepath.Join(img, "UTXO.db"))
	if err != nil || len(snap) < 40 {
		// between the two renames of a save (or after an aborted one) only UTXO.old exists: the loader falls back to it
		snap, err = os.ReadFile(filepath.Join(img, "UTXO.old"))
		if err != nil || len(snap) < 40 {
			return false
		}
	}
	idx, _ := os.ReadFile(filepath.Join(img, "blockchain.new"))
	for off := 0; off+136 <= len(idx); off += 136 {
		// a record whose data lies beyond the end of its data file ends the usable index (as a short record does)
		rec := idx[off : off+136]
		fidx := binary.LittleEndian.Uint32(rec[28:32])
		fpos, blen := binary.LittleEndian.Uint64(rec[40:48]), binary.LittleEndian.Uint32(rec[48:52])
		if st, err := os.Stat(filepath.Join(img, fmt.Sprintf("bl%08d.dat", fidx))); err == nil && int64(fpos)+int64(blen) > st.Size() {
			return true
		}
		h := ledger.Sha256d(idx[off+56 : off+136])
		if string(h[:]) == string(snap[8:40]) {
			return false
		}
	}
	return true
}
