package chainsim

// The simulated node: real lib/chain + lib/utxo + lib/btc (+ optionally the
// balance index) opened on a run directory, plus the small part of
// client/main.go that the harness has to re-state (dispatch of received
// blocks, the start-up recovery loop).

import (
	"encoding/binary"
	"fmt"
	"math/big"
	"os"
	"path/filepath"

	"github.com/piotrnar/gocoin/lib/btc"
	"github.com/piotrnar/gocoin/lib/chain"
	"github.com/piotrnar/gocoin/lib/utxo"

	"verif/harness/ledger"
)

type NodeOpts struct {
	P              ledger.Params
	Genesis        [32]byte
	CompressBlocks bool
	CacheBlocks    int
	MaxFileSize    uint64
	ClientRecovery bool // recover the way client/main.go does (do_the_blocks) instead of ParseTillBlock
	LibraryTail    bool // the genesis selects the rule set NewChainExt configures by itself: let NewChainExt re-apply the blocks (DoNotRescan=false)
	NetPath        bool // PreCheckBlock/AcceptHeader ... PostCheckBlock/CommitBlock instead of CheckBlock/AcceptBlock
	Callbacks      utxo.CallbackFunctions
	BlockMined     func(*btc.Block)
	BlockUndone    func(*btc.Block)
}

type Node struct {
	Ch   *chain.Chain
	Dir  string
	Opts NodeOpts
}

// freshProcess restores the package-level state a new OS process starts with.
func freshProcess() {
	utxo.NewUtxoRecOwn = utxo.NewUtxoRecOwnU
	utxo.OneUtxoRec = utxo.OneUtxoRecU
	utxo.Serialize = utxo.SerializeU
	chain.AbortNow = false
}

// writeGenesisSnapshot writes the 48-byte UTXO.db of the empty genesis state,
// so that opening does not take the 650 MB "no snapshot" path.
func writeGenesisSnapshot(dir string, genesis [32]byte, compressed bool) {
	os.MkdirAll(dir, 0770)
	b := make([]byte, 48)
	if compressed {
		binary.LittleEndian.PutUint64(b[0:8], 1<<63)
	}
	copy(b[8:40], genesis[:])
	os.WriteFile(filepath.Join(dir, "UTXO.db"), b, 0660)
}

func applyConsensus(ch *chain.Chain, p ledger.Params) {
	ch.Consensus.MaxPOWBits = p.PowLimitBits
	lim, _, _ := ledger.CompactToBig(p.PowLimitBits)
	ch.Consensus.MaxPOWValue = new(big.Int).Set(lim)
	ch.Consensus.GensisTimestamp = p.GenesisTime
	ch.Consensus.BIP34Height = p.BIP34Height
	ch.Consensus.BIP65Height = p.BIP65Height
	ch.Consensus.BIP66Height = p.BIP66Height
	ch.Consensus.Enforce_CSV = p.CSVHeight
	ch.Consensus.Enforce_SEGWIT = p.SegwitHeight
	ch.Consensus.Enforce_Taproot = p.TaprootHeight
	ch.RebuildGenesisHeader()
}

// Boot is "the process starts and opens its data directory".
func Boot(dir string, o NodeOpts) *Node {
	freshProcess()
	if dir[len(dir)-1] != '/' {
		dir += "/"
	}
	libTail := o.LibraryTail && !o.ClientRecovery
	ch := chain.NewChainExt(dir, btc.NewUint256(o.Genesis[:]), false,
		&chain.NewChanOpts{DoNotRescan: !libTail, UTXOCallbacks: o.Callbacks, BlockMinedCB: o.BlockMined, BlockUndoneCB: o.BlockUndone},
		&chain.BlockDBOpts{MaxCachedBlocks: o.CacheBlocks, MaxDataFileSize: o.MaxFileSize, CompressOnDisk: o.CompressBlocks})
	n := &Node{Ch: ch, Dir: dir, Opts: o}
	applyConsensus(ch, o.P)
	if libTail {
		return n // NewChainExt has done the recovery itself
	}
	// blocks on disk beyond the snapshot: re-apply them (tail of NewChainExt / client start-up)
	end, _ := ch.BlockTreeRoot.FindFarthestNode()
	if end.Height > ch.LastBlock().Height && end.MorePOW(ch.LastBlock()) { // (as both start-up paths do since fix 2d235d92: more work, not just longer)
		if o.ClientRecovery {
			n.doTheBlocks(end)
		} else {
			ch.MoveToBlock(end) // as the tail of NewChainExt does (after fix 8: MoveToBlock, not ParseTillBlock)
		}
	}
	return n
}

// doTheBlocks re-states client/main.go:do_the_blocks + LocalAcceptBlock (the parts that touch the chain).
func (n *Node) doTheBlocks(end *chain.BlockTreeNode) {
	ch := n.Ch
	last := ch.LastBlock()
	if last != end {
		last = last.FindFirstFather(end)
	}
	for last != end {
		nxt := last.FindPathTo(end)
		if nxt == nil {
			break
		}
		if nxt.BlockSize == 0 {
			break
		}
		crec, trusted, _ := ch.Blocks.BlockGetInternal(nxt.BlockHash, true)
		if crec == nil || crec.Data == nil {
			panic(fmt.Sprint("No data for block #", nxt.Height, " ", nxt.BlockHash.String()))
		}
		bl, er := btc.NewBlock(crec.Data)
		if er != nil {
			break
		}
		bl.Height = nxt.Height
		ch.ApplyBlockFlags(bl)
		if er = bl.BuildTxList(); er != nil {
			break
		}
		bl.Trusted.Store(trusted)
		// LocalAcceptBlock
		ch.Unspent.AbortWriting()
		ch.Blocks.BlockAdd(nxt.Height, bl)
		bl.LastKnownHeight = end.Height
		if e := ch.CommitBlock(bl, nxt); e != nil {
			break
		}
		last = nxt
	}
}

// Deliver hands a raw block to the node the way the RPC path (or the network path) does.
// stage tells where a refusal happened: "parse", "check" (maybelater=parent unknown), "accept".
func (n *Node) Deliver(raw []byte) (err error, stage string, maybeLater bool) {
	ch := n.Ch
	bl, er := btc.NewBlock(raw)
	if er != nil {
		return er, "parse", false
	}
	ch.Unspent.AbortWriting()
	if !n.Opts.NetPath {
		_, ml, e := ch.CheckBlock(bl)
		if e != nil {
			return e, "check", ml
		}
		if e = ch.AcceptBlock(bl); e != nil {
			return e, "accept", false
		}
		return nil, "", false
	}
	// network path: header first, body later
	ch.BlockIndexAccess.Lock()
	_, ml, e := ch.PreCheckBlock(bl)
	if e != nil {
		ch.BlockIndexAccess.Unlock()
		return e, "check", ml
	}
	node := ch.AcceptHeader(bl)
	ch.BlockIndexAccess.Unlock()
	if e = ch.PostCheckBlock(bl); e != nil {
		// netBlockReceived: a block whose body fails is deleted from the tree again
		ch.DeleteBranch(node, nil)
		return e, "check", false
	}
	if !ch.HasAllParents(node) {
		// cannot happen in this harness: parents are delivered first
		return fmt.Errorf("parents not committed"), "accept", true
	}
	ch.Blocks.BlockAdd(node.Height, bl)
	if e = ch.CommitBlock(bl, node); e != nil {
		return e, "accept", false
	}
	return nil, "", false
}

func (n *Node) Tip() (h [32]byte, height uint32) {
	l := n.Ch.LastBlock()
	return l.BlockHash.Hash, l.Height
}

// Dump decodes the whole unspent set.
func (n *Node) Dump() map[ledger.OutPoint]ledger.Coin {
	res := map[ledger.OutPoint]ledger.Coin{}
	db := n.Ch.Unspent
	for i := range db.HashMap {
		db.MapMutex[i].RLock()
		for _, v := range db.HashMap[i] {
			rec := utxo.NewUtxoRec(*v)
			for vout, o := range rec.Outs {
				if o != nil {
					res[ledger.OutPoint{Hash: rec.TxID, N: uint32(vout)}] = ledger.Coin{Value: o.Value, Pk: append([]byte(nil), o.PKScr...), Height: rec.InBlock, Coinbase: rec.Coinbase}
				}
			}
		}
		db.MapMutex[i].RUnlock()
	}
	return res
}

func (n *Node) Close() {
	n.Ch.Close()
}
