package chainsim

// The simulated node: real lib/chain + lib/utxo + lib/btc (+ optionally the
// balance index) opened on a run directory, plus the small part of
// client/main.go that the harness has to re-state (dispatch of received
// blocks, the start-up recovery loop).

import (
	"encoding/binary"
	"fmt"
	"math/big"
	"os"
	"path/filepath"
	"time"
	"unsafe"

	"github.com/piotrnar/gocoin/client/common"
	"github.com/piotrnar/gocoin/client/mainlib"
	"github.com/piotrnar/gocoin/client/network"
	"github.com/piotrnar/gocoin/lib/btc"
	"github.com/piotrnar/gocoin/lib/chain"
	"github.com/piotrnar/gocoin/lib/others/memory"
	"github.com/piotrnar/gocoin/lib/utxo"

	"verif/harness/ledger"
	"verif/sim/simrt"
)

type NodeOpts struct {
	P              ledger.Params
	Genesis        [32]byte
	CompressBlocks bool
	CacheBlocks    int
	MaxFileSize    uint64
	ClientRecovery bool // recover the way client/main.go does (do_the_blocks) instead of ParseTillBlock
	LibraryTail    bool // the genesis selects the rule set NewChainExt configures by itself: let NewChainExt re-apply the blocks (DoNotRescan=false)
	NetPath        bool // PreCheckBlock/AcceptHeader ... PostCheckBlock/CommitBlock instead of CheckBlock/AcceptBlock
	CompressOpt    bool // NewChanOpts.CompressUTXO (the client's UTXOSave.CompressRecords): matters when no snapshot is loaded
	RealAlloc      bool // UTXO records live in lib/others/memory (as in the client unless UseGoHeap), not on the Go heap
	Callbacks      utxo.CallbackFunctions
	BlockMined     func(*btc.Block)
	BlockUndone    func(*btc.Block)
}

type Node struct {
	Ch    *chain.Chain
	Dir   string
	Opts  NodeOpts
	Alloc *memory.Allocator
	ballast []*[]byte
	heavyFirst []*[]byte
	heavy   []*[]byte // bulk filling of two size classes (freed again before a defragmentation)
	ParseTillLeft bool // the client's start-up replay ended without reaching its goal (the client keeps the network on hold then)
}

// freshProcess restores the package-level state a new OS process starts with.
func freshProcess() {
	utxo.NewUtxoRecOwn = utxo.NewUtxoRecOwnU
	utxo.OneUtxoRec = utxo.OneUtxoRecU
	utxo.Serialize = utxo.SerializeU
	chain.AbortNow = false
	chain.TrustedTxChecker = nil
	utxo.Memory_Malloc = func(le int) *[]byte {
		p := make([]byte, le)
		return &p
	}
	utxo.Memory_Free = func(*[]byte) {}
}

// writeGenesisSnapshot writes the 48-byte UTXO.db of the empty genesis state,
// so that opening does not take the 650 MB "no snapshot" path.
func writeGenesisSnapshot(dir string, genesis [32]byte, compressed bool) {
	os.MkdirAll(dir, 0770)
	b := make([]byte, 48)
	if compressed {
		binary.LittleEndian.PutUint64(b[0:8], 1<<63)
	}
	copy(b[8:40], genesis[:])
	os.WriteFile(filepath.Join(dir, "UTXO.db"), b, 0660)
}

func applyConsensus(ch *chain.Chain, p ledger.Params) {
	ch.Consensus.MaxPOWBits = p.PowLimitBits
	lim, _, _ := ledger.CompactToBig(p.PowLimitBits)
	ch.Consensus.MaxPOWValue = new(big.Int).Set(lim)
	ch.Consensus.GensisTimestamp = p.GenesisTime
	ch.Consensus.BIP34Height = p.BIP34Height
	ch.Consensus.BIP65Height = p.BIP65Height
	ch.Consensus.BIP66Height = p.BIP66Height
	ch.Consensus.Enforce_CSV = p.CSVHeight
	ch.Consensus.Enforce_SEGWIT = p.SegwitHeight
	ch.Consensus.Enforce_Taproot = p.TaprootHeight
	ch.RebuildGenesisHeader()
}

// Boot is "the process starts and opens its data directory".
func Boot(dir string, o NodeOpts) *Node {
	freshProcess()
	if dir[len(dir)-1] != '/' {
		dir += "/"
	}
	var alloc *memory.Allocator
	if o.RealAlloc {
		// client/common/config.go: Memory = memory.NewAllocator(); utxo.Memory_Malloc = Memory.Malloc; ...
		alloc = memory.NewAllocator()
		utxo.Memory_Malloc = alloc.Malloc
		utxo.Memory_Free = alloc.Free
	}
	libTail := o.LibraryTail && !o.ClientRecovery
	ch := chain.NewChainExt(dir, btc.NewUint256(o.Genesis[:]), false,
		&chain.NewChanOpts{DoNotRescan: !libTail, UTXOCallbacks: o.Callbacks, BlockMinedCB: o.BlockMined, BlockUndoneCB: o.BlockUndone, CompressUTXO: o.CompressOpt},
		&chain.BlockDBOpts{MaxCachedBlocks: o.CacheBlocks, MaxDataFileSize: o.MaxFileSize, CompressOnDisk: o.CompressBlocks})
	n := &Node{Ch: ch, Dir: dir, Opts: o, Alloc: alloc}
	applyConsensus(ch, o.P)
	if libTail {
		return n // NewChainExt has done the recovery itself
	}
	// blocks on disk beyond the snapshot: re-apply them (tail of NewChainExt / client start-up)
	end, _ := ch.BlockTreeRoot.FindFarthestNode()
	if end != ch.LastBlock() && end.MorePOW(ch.LastBlock()) { // (as both start-up paths do: the branch with more work, higher or not)
		if o.ClientRecovery {
			n.clientReplay(end)
		} else {
			ch.MoveToBlock(end) // as the tail of NewChainExt does (after fix 8: MoveToBlock, not ParseTillBlock)
		}
	}
	return n
}

// clientReplay is the client's own start-up replay of blocks stored beyond the snapshot, run with the real
// code of client/main.go (made importable as client/mainlib in the scratch copy): init.go sets
// common.Last.ParseTill, main() starts "go do_the_blocks(ParseTill)" and its main loop hands every queued block
// to HandleNetBlock (-> LocalAcceptBlock -> CommitBlock, retry_cached_blocks).  Only the loop around the block
// channel is the harness's; the network tick stays held while ParseTill is set, as in the client.
func (n *Node) clientReplay(end *chain.BlockTreeNode) {
	ch := n.Ch
	common.BlockChain = ch
	common.GocoinHomeDir = n.Dir
	common.CFG.Memory.MaxCachedBlks = 200
	common.CFG.Stat.BSizeBlks = 1008
	common.BlockChainSynchronized.Store(false)
	common.RecalcAverageBlockSize() // main() does this before anything else touches the chain
	common.Last.Mutex.Lock()
	common.Last.Block = ch.LastBlock()
	common.Last.ParseTill = end
	common.Last.Mutex.Unlock()
	network.MutexRcv.Lock()
	network.ReceivedBlocks = map[btc.BIDX]*network.OneReceivedBlock{}
	network.BlocksToGet = map[btc.BIDX]*network.OneBlockToGet{}
	network.BlocksToGetFailed = map[btc.BIDX]struct{}{}
	network.IndexToBlocksToGet = map[uint32][]btc.BIDX{}
	network.DiscardedBlocks = map[btc.BIDX]bool{}
	network.LowestIndexToBlocksToGet.Store(0)
	ch.BlockIndexAccess.Lock()
	for k, v := range ch.BlockIndex {
		network.ReceivedBlocks[k] = &network.OneReceivedBlock{TmStart: time.Unix(int64(v.Timestamp()), 0)}
	}
	ch.BlockIndexAccess.Unlock()
	network.LastCommitedHeader = end
	network.MutexRcv.Unlock()
	network.CachedBlocksMutex.Lock()
	network.CachedBlocksIdx = map[uint32][]*network.BlockRcvd{}
	network.CachedMinHeight, network.CachedMaxHeight = 0, 0
	network.CachedBlocksMutex.Unlock()
	network.NetBlocks = make(chan *network.BlockRcvd, 512)
	mainlib.ResetForSim()
	queued := false
	simrt.Go(func() {
		mainlib.DoTheBlocks(end)
		queued = true
	})
	for idle := 0; ; {
		mainlib.MainLoopRetry()
		if len(network.NetBlocks) > 0 {
			mainlib.HandleNetBlock(simrt.Recv(network.NetBlocks))
			idle = 0
			continue
		}
		common.Last.Mutex.Lock()
		goal := common.Last.ParseTill
		common.Last.Mutex.Unlock()
		if goal == nil || (queued && idle >= 3) {
			break // reached (or given up by the client), or nothing has been queued for three main-loop seconds
		}
		simrt.Sleep(time.Second) // the main loop's one-second tick; a replay goroutine started meanwhile gets its turn
		idle++
	}
	common.Last.Mutex.Lock()
	n.ParseTillLeft = common.Last.ParseTill != nil
	common.Last.ParseTill = nil
	common.Last.Mutex.Unlock()
}

// doTheBlocks re-states client/main.go:do_the_blocks + LocalAcceptBlock (the parts that touch the chain).
// (kept for reference; the client path now runs the real code, see clientReplay)
func (n *Node) doTheBlocks(end *chain.BlockTreeNode) {
	ch := n.Ch
	last := ch.LastBlock()
	if last != end {
		last = last.FindFirstFather(end)
	}
	for last != end {
		nxt := last.FindPathTo(end)
		if nxt == nil {
			break
		}
		if nxt.BlockSize == 0 {
			break
		}
		crec, trusted, _ := ch.Blocks.BlockGetInternal(nxt.BlockHash, true)
		if crec == nil || crec.Data == nil {
			panic(fmt.Sprint("No data for block #", nxt.Height, " ", nxt.BlockHash.String()))
		}
		bl, er := btc.NewBlock(crec.Data)
		if er != nil {
			break
		}
		bl.Height = nxt.Height
		ch.ApplyBlockFlags(bl)
		if er = bl.BuildTxList(); er != nil {
			break
		}
		bl.Trusted.Store(trusted)
		// LocalAcceptBlock
		ch.Unspent.AbortWriting()
		ch.Blocks.BlockAdd(nxt.Height, bl)
		bl.LastKnownHeight = end.Height
		if e := ch.CommitBlock(bl, nxt); e != nil {
			break
		}
		last = nxt
	}
}

// Deliver hands a raw block to the node the way the RPC path (or the network path) does.
// stage tells where a refusal happened: "parse", "check" (maybelater=parent unknown), "accept".
func (n *Node) Deliver(raw []byte) (err error, stage string, maybeLater bool) {
	ch := n.Ch
	// as the client's callers do (network payload, decoded hex): a slice without spare capacity.  btc.NewTx finds
	// the end of its input through slice-bounds panics, and those are raised at the capacity, not at the length.
	raw = append(make([]byte, 0, len(raw)), raw...)
	bl, er := btc.NewBlock(raw)
	if er != nil {
		return er, "parse", false
	}
	ch.Unspent.AbortWriting()
	if !n.Opts.NetPath {
		_, ml, e := ch.CheckBlock(bl)
		if e != nil {
			return e, "check", ml
		}
		if e = ch.AcceptBlock(bl); e != nil {
			return e, "accept", false
		}
		return nil, "", false
	}
	// network path: header first, body later
	ch.BlockIndexAccess.Lock()
	_, ml, e := ch.PreCheckBlock(bl)
	if e != nil {
		ch.BlockIndexAccess.Unlock()
		return e, "check", ml
	}
	node := ch.AcceptHeader(bl)
	ch.BlockIndexAccess.Unlock()
	if e = ch.PostCheckBlock(bl); e != nil {
		// netBlockReceived: a block whose body fails is deleted from the tree again
		ch.DeleteBranch(node, nil)
		return e, "check", false
	}
	if !ch.HasAllParents(node) {
		// cannot happen in this harness: parents are delivered first
		return fmt.Errorf("parents not committed"), "accept", true
	}
	ch.Blocks.BlockAdd(node.Height, bl)
	if e = ch.CommitBlock(bl, node); e != nil {
		return e, "accept", false
	}
	return nil, "", false
}

// Ballast fills the current page of the allocator's small size classes up to the last slot and frees a
// few of the filling allocations again.  A fresh allocator hands out slots by bumping a pointer through a
// 1 MiB page and never looks at its free lists before the page is full; a node with a few hundred records would
// therefore never get a freed slot back, and a record that lib/utxo freed too early (or twice) would stay intact
// by luck.  With the ballast in place every Free is followed by a Malloc that reuses the slot (LIFO), as in a
// node whose unspent set has been churning for a while.  all=false picks about a third of the classes.
func (n *Node) Ballast(rng interface {
	Intn(int) int
	Chance(float64) bool
}, all bool) (classes int) {
	a := n.Alloc
	if a == nil {
		return 0
	}
	addr := func(b *[]byte) uintptr { return uintptr(unsafe.Pointer(unsafe.SliceData((*b)[:1]))) }
	const page = 1 << 20
	// the two record sizes the node's set uses most (rounded up to the next multiple of eight)
	hot := map[int]bool{}
	if all {
		cnt := map[int]int{}
		db := n.Ch.Unspent
		for i := range db.HashMap {
			for _, v := range db.HashMap[i] {
				if l := (len(*v) + 7) &^ 7; l >= 48 && l <= 400 {
					cnt[l]++
				}
			}
		}
		for k := 0; k < 2; k++ {
			best := 0
			for l, c := range cnt {
				if !hot[l] && (best == 0 || c > cnt[best] || (c == cnt[best] && l < best)) {
					best = l
				}
			}
			if best != 0 {
				hot[best] = true
			}
		}
	}
	for sz := 48; sz <= 400; sz += 8 {
		if !all && !rng.Chance(0.35) {
			continue
		}
		b0, b1 := a.Malloc(sz), a.Malloc(sz)
		a0, a1 := addr(b0), addr(b1)
		n.ballast = append(n.ballast, b0, b1)
		if a1 <= a0 || a1-a0 > 4096 || a0/page != a1/page {
			continue // not two consecutive bump allocations (the class is already past its first page)
		}
		slot := a1 - a0
		end := (a1/page + 1) * page
		rest := int((end - (a1 - 24 + slot)) / slot)
		var mine []*[]byte
		prev, bump := a1, true
		for i := 0; i < rest; i++ {
			b := a.Malloc(sz)
			if addr(b) != prev+slot {
				// b0/b1 came from a free list (two sizes of one class): not a bump sequence after all
				n.ballast = append(n.ballast, b)
				bump = false
				break
			}
			mine = append(mine, b)
			prev = addr(b)
		}
		if !bump {
			n.ballast = append(n.ballast, mine...)
			continue
		}
		k := 40 + rng.Intn(160)
		for i := 0; i < k && len(mine) > 0; i++ {
			j := rng.Intn(len(mine))
			a.Free(mine[j])
			mine[j] = mine[len(mine)-1]
			mine = mine[:len(mine)-1]
		}
		classes++
		if !hot[sz] {
			n.ballast = append(n.ballast, mine...)
		} else {
			n.heavyFirst = append(n.heavyFirst, mine...) // (freed entirely: the node's own page becomes the sparsest)
			// two much-used classes get fourteen more pages, so that a later DefragMem (which first frees most of
			// this) finds more than twelve pages' worth of free slots and really moves records
			per := int((page - 64) / slot)
			for i := 0; i < 14*per; i++ {
				n.heavy = append(n.heavy, a.Malloc(sz))
			}
		}
	}
	return classes
}

// DefragMem is client/common.DefragUTXOMem: compact the allocator's pages, telling the UTXO map where records moved.
func (n *Node) DefragMem(rng interface{ Intn(int) int }) (moved, movedNode int) {
	if n.Alloc == nil {
		return 0, 0
	}
	// churn: most of the bulk filling goes away (a few per page stay, so that the pages are sparse, not empty)
	for _, b := range n.heavyFirst {
		n.Alloc.Free(b)
	}
	n.heavyFirst = nil
	keep := n.heavy[:0]
	for _, b := range n.heavy {
		if rng.Intn(100) < 6 {
			keep = append(keep, b)
		} else {
			n.Alloc.Free(b)
		}
	}
	n.heavy = keep
	mine := map[*[]byte]int{}
	for i, b := range n.heavy {
		mine[b] = i
	}
	for i, b := range n.ballast {
		mine[b] = -1 - i
	}
	moved = n.Alloc.DefragAllImproved(func(oldRec, newRec *[]byte) {
		if i, ok := mine[oldRec]; ok {
			// the harness's own filling: just follow it (in the client every allocation belongs to the UTXO set)
			if i >= 0 {
				n.heavy[i] = newRec
			} else {
				n.ballast[-1-i] = newRec
			}
			return
		}
		movedNode++
		n.Ch.Unspent.Relocate(oldRec, newRec)
	})
	return
}

// Header makes the node learn a block by its header only, the way a `headers` message does
// (client/network ProcessNewHeader: PreCheckBlock + AcceptHeader under the index lock); the block itself never comes.
func (n *Node) Header(raw []byte) error {
	if len(raw) < 80 {
		return fmt.Errorf("short header")
	}
	bl, er := btc.NewBlock(raw[:80])
	if er != nil {
		return er
	}
	ch := n.Ch
	ch.BlockIndexAccess.Lock()
	defer ch.BlockIndexAccess.Unlock()
	if _, _, e := ch.PreCheckBlock(bl); e != nil {
		return e
	}
	ch.AcceptHeader(bl)
	return nil
}

func (n *Node) Tip() (h [32]byte, height uint32) {
	l := n.Ch.LastBlock()
	return l.BlockHash.Hash, l.Height
}

// Dump decodes the whole unspent set.
func (n *Node) Dump() map[ledger.OutPoint]ledger.Coin {
	res := map[ledger.OutPoint]ledger.Coin{}
	db := n.Ch.Unspent
	for i := range db.HashMap {
		db.MapMutex[i].RLock()
		for _, v := range db.HashMap[i] {
			rec := utxo.NewUtxoRec(*v)
			for vout, o := range rec.Outs {
				if o != nil {
					res[ledger.OutPoint{Hash: rec.TxID, N: uint32(vout)}] = ledger.Coin{Value: o.Value, Pk: append([]byte(nil), o.PKScr...), Height: rec.InBlock, Coinbase: rec.Coinbase}
				}
			}
		}
		db.MapMutex[i].RUnlock()
	}
	return res
}

func (n *Node) Close() {
	n.Ch.Close()
	if n.Alloc != nil {
		simrt.Quiet(func() {
			for _, b := range n.ballast {
				n.Alloc.Free(b)
			}
			for _, b := range n.heavy {
				n.Alloc.Free(b)
			}
			for _, b := range n.heavyFirst {
				n.Alloc.Free(b)
			}
			n.heavy, n.heavyFirst = nil, nil
		})
		n.ballast = nil
	}
}
