package chainsim

import (
	"crypto/sha256"
	"encoding/binary"
	"encoding/hex"
	"encoding/json"
	"fmt"
	"os"
	"path/filepath"
	"runtime"
	"slices"
	"sync"
	"syscall"

	"github.com/piotrnar/gocoin/lib/others/siphash"

	"verif/harness/hx"
	"verif/harness/ledger"
)

// A short-id collision kit: a block on top of the template chain, a compact-block nonce, and two well-formed
// transactions (spending outputs nobody knows, so a node keeps them as orphans) whose BIP152 short ids under
// (header, nonce) are equal. 48-bit ids: a birthday search over 2^25 candidates, about as much work as an
// attacker needs per attempt; honest traffic meets such a pair by chance (pool size x block size / 2^48 per block).
// Computed once per template and kept in the directory the child processes of one check share.
type sidKit struct {
	Block string `json:"block"` // hash of the block the kit belongs to
	Nonce string `json:"nonce"`
	Tx1   string `json:"tx1"`
	Tx2   string `json:"tx2"`
	Sid   string `json:"sid"`

	nonce, tx1, tx2, sid []byte
}

const kitLog2 = 25

// kitTx is candidate number i: version 1, one input (an outpoint derived from i), one output, no witness: 61 bytes.
func kitTx(i uint64, buf []byte) []byte {
	b := buf[:0]
	b = append(b, 1, 0, 0, 0, 1)
	var op [36]byte
	binary.LittleEndian.PutUint64(op[:8], i)
	copy(op[8:], "verif short-id collision")
	b = append(b, op[:]...)
	b = append(b, 0, 0xff, 0xff, 0xff, 0xff, 1, 0xe8, 3, 0, 0, 0, 0, 0, 0, 1, 0x51, 0, 0, 0, 0)
	return b
}

func kitSid(k0, k1 uint64, tx []byte) uint64 {
	h := sha256.Sum256(tx)
	h = sha256.Sum256(h[:])
	return siphash.Hash(k0, k1, h[:]) & 0xffffffffffff
}

func kitBlock(l *ledger.Ledger, tip *ledger.Node, m *ledger.Miner) *ledger.Block {
	saved := m.R
	m.R = hx.NewRng(0xC011DE)
	b, ok := m.Build(tip, ledger.BlockOpts{NTx: 0})
	m.R = saved
	if !ok {
		return nil
	}
	return b
}

func kitDir() string {
	if sh := os.Getenv("VSIM_SHARED"); sh != "" {
		return sh
	}
	if d := os.Getenv("VSIM_DIR"); d != "" {
		return d
	}
	return os.TempDir()
}

// ensureKit loads the kit for block b, computing it first if no process has done so yet (the others wait on a
// file lock, in real time: call it outside the simulator).
func ensureKit(b *ledger.Block) *sidKit {
	bh := b.Hash()
	path := filepath.Join(kitDir(), fmt.Sprintf("shortid-kit-%x.json", bh[:8]))
	load := func() *sidKit {
		raw, err := os.ReadFile(path)
		if err != nil {
			return nil
		}
		k := &sidKit{}
		if json.Unmarshal(raw, k) != nil || k.Block != hex.EncodeToString(bh[:]) {
			return nil
		}
		k.nonce, _ = hex.DecodeString(k.Nonce)
		k.tx1, _ = hex.DecodeString(k.Tx1)
		k.tx2, _ = hex.DecodeString(k.Tx2)
		k.sid, _ = hex.DecodeString(k.Sid)
		if len(k.nonce) != 8 || len(k.sid) != 6 || len(k.tx1) == 0 || len(k.tx2) == 0 {
			return nil
		}
		return k
	}
	if k := load(); k != nil {
		return k
	}
	os.MkdirAll(kitDir(), 0770)
	lf, err := os.OpenFile(path+".lock", os.O_CREATE|os.O_RDWR, 0660)
	if err != nil {
		fmt.Fprintln(os.Stderr, "netsim: kit lock:", err)
		os.Exit(2)
	}
	defer lf.Close()
	syscall.Flock(int(lf.Fd()), syscall.LOCK_EX)
	defer syscall.Flock(int(lf.Fd()), syscall.LOCK_UN)
	if k := load(); k != nil {
		return k
	}
	hdr := b.H.Bytes()
	procs := runtime.GOMAXPROCS(0)
	if procs < 16 {
		defer runtime.GOMAXPROCS(runtime.GOMAXPROCS(16))
		procs = 16
	}
	const N = 1 << kitLog2
	sids := make([]uint64, N)
	for attempt := uint64(0); ; attempt++ {
		var nonce [8]byte
		binary.LittleEndian.PutUint64(nonce[:], 0x5eed0000+attempt)
		h := sha256.New()
		h.Write(hdr)
		h.Write(nonce[:])
		kk := h.Sum(nil)
		k0, k1 := binary.LittleEndian.Uint64(kk[0:8]), binary.LittleEndian.Uint64(kk[8:16])
		var wg sync.WaitGroup
		for w := 0; w < procs; w++ {
			wg.Add(1)
			go func(w int) {
				defer wg.Done()
				var buf [64]byte
				for i := w * (N / procs); i < (w+1)*(N/procs); i++ {
					sids[i] = kitSid(k0, k1, kitTx(uint64(i), buf[:]))
				}
			}(w)
		}
		wg.Wait()
		sorted := slices.Clone(sids)
		slices.Sort(sorted)
		dup, found := uint64(0), false
		for i := 1; i < N; i++ {
			if sorted[i] == sorted[i-1] {
				dup, found = sorted[i], true
				break
			}
		}
		if !found {
			continue
		}
		var idx []uint64
		for i := 0; i < N && len(idx) < 2; i++ {
			if sids[i] == dup {
				idx = append(idx, uint64(i))
			}
		}
		var sid [8]byte
		binary.LittleEndian.PutUint64(sid[:], dup)
		k := &sidKit{Block: hex.EncodeToString(bh[:]), Nonce: hex.EncodeToString(nonce[:]),
			Tx1: hex.EncodeToString(kitTx(idx[0], nil)), Tx2: hex.EncodeToString(kitTx(idx[1], nil)), Sid: hex.EncodeToString(sid[:6])}
		raw, _ := json.Marshal(k)
		tmp := fmt.Sprintf("%s.tmp%d", path, os.Getpid())
		if os.WriteFile(tmp, raw, 0660) != nil || os.Rename(tmp, path) != nil {
			fmt.Fprintln(os.Stderr, "netsim: cannot write", path)
			os.Exit(2)
		}
		return load()
	}
}
