package chainsim

// poolsim (C12): the node = real lib/chain + lib/utxo + client/txpool wired
// through the real callbacks; the harness submits transactions, mines blocks
// from the pool's own listing, reorganises, moves the clock, saves and reloads,
// and after every operation recomputes the stated invariants from the EXPORTED
// pool state and the reference ledger.

import (
	"bytes"
	"encoding/json"
	"fmt"
	"os"
	"path/filepath"
	"sort"
	"testing"
	"time"

	"github.com/piotrnar/gocoin/client/common"
	"github.com/piotrnar/gocoin/client/mainlib"
	"github.com/piotrnar/gocoin/client/txpool"
	"github.com/piotrnar/gocoin/lib/btc"

	"verif/harness/hx"
	"verif/harness/ledger"
	"verif/sim/simos"
	"verif/sim/simrt"
)

type PoolCfg struct {
	Cfg
	NotFullRBF   bool    `json:"not_full_rbf"`
	ExpireDays   uint    `json:"expire_days"`
	RejectRecCnt uint16  `json:"reject_rec_cnt"`
	FeePerByte   float64 `json:"fee_per_byte"`
	CommitFlag   bool    `json:"block_commit_in_progress_flag"` // wrap block acceptance the way LocalAcceptBlock does
	Evict        bool    `json:"evict"`
}

type PoolOp struct {
	Op   string `json:"op"` // tx mine undo tick saveload
	Kind string `json:"kind,omitempty"`
	Seed uint64 `json:"seed"`
	N    int    `json:"n,omitempty"`
	Ms   int64  `json:"ms,omitempty"`
	ID   int    `json:"id"`
	Q    bool   `json:"q,omitempty"` // tx from a peer: wanted and marked pending now, taken from the queue by the main thread only after the next operation
}

type PoolH struct{}

func (PoolH) Name() string { return "poolsim" }

func (PoolH) Prepare(t *testing.T, c *hx.Case) {
	pc := &PoolCfg{}
	if json.Unmarshal(c.Cfg, pc) == nil {
		ensureTemplate(&pc.Cfg, &hx.Outcome{})
	}
}

var txKinds = []string{"valid", "valid", "valid", "child", "child", "child", "double-low", "double-high", "double-high", "orphan", "orphan-parent", "double-and-child", "double-and-child", "just-mature", "just-mature", "just-final", "just-final", "seqlock", "seqlock",
	"badsig", "overspend", "immature", "dup", "dupinput", "nonfinal", "local", "trusted"}

func (PoolH) Gen(prop string, seed uint64, tier string) *hx.Case {
	r := hx.NewRng(seed)
	cfg := &PoolCfg{}
	cfg.Testnet = r.Chance(0.3)
	cfg.Testnet4 = cfg.Testnet && r.Chance(0.5)
	cfg.P = baseParams(cfg.Testnet)
	cfg.CompressUTXO, cfg.CompressBlocks, cfg.CacheBlocks = r.Chance(0.3), r.Chance(0.3), r.Range(2, 20)
	cfg.SaveTargetMs, cfg.SkipSave = 0, 100
	cfg.MaxConsec = []int{50, 500, 5000}[r.Intn(3)]
	cfg.SchedSeed = r.U64()
	cfg.YieldP = []float64{0, 0.02, 0.1, 0.3}[r.Intn(4)]
	if r.Chance(0.25) {
		cfg.PCT, cfg.PCTSteps = r.Range(1, 4), []int{300, 2000, 10000, 40000}[r.Intn(4)]
	}
	cfg.Now0 = 1893456000 + int64(seed%3000)*86400 // 2030-01-01 + up to ~8 years: beyond the real clock the package was initialised with
	cfg.NotFullRBF = r.Chance(0.3)
	if r.Chance(0.25) {
		cfg.ChildFirstP = []float64{0.2, 0.6, 1}[r.Intn(3)]
	}
	cfg.ExpireDays = uint(r.Range(1, 14))
	cfg.RejectRecCnt = uint16([]int{100, 150, 1000}[r.Intn(3)])
	cfg.FeePerByte = []float64{0, 1, 5}[r.Intn(3)]
	cfg.CommitFlag = r.Chance(0.5)
	cfg.Evict = r.Chance(0.04) || (tier == "thorough" && r.Chance(0.08))
	var ops []json.RawMessage
	id := 0
	add := func(o PoolOp) { id++; o.ID = id; o.Seed = r.U64(); ops = append(ops, hx.J(o)) }
	n := r.Range(10, 120)
	if r.Chance(0.3) {
		n = r.Range(4, 20)
	}
	if cfg.Evict {
		for i := 0; i < 140; i++ {
			add(PoolOp{Op: "tx", Kind: "big"})
		}
	}
	for i := 0; i < n; i++ {
		switch r.Pick(62, 14, 5, 8, 4, 4, 3) {
		case 0:
			if r.Chance(0.06) {
				// a peer relays a transaction of the tip block (all of its outputs already spent there) while the
				// main thread is about to disconnect that block
				add(PoolOp{Op: "tx", Kind: "mined-resend", Q: true})
				add(PoolOp{Op: "undo", N: 1})
				break
			}
			add(PoolOp{Op: "tx", Kind: txKinds[r.Intn(len(txKinds))], Q: r.Chance(0.12)})
		case 1:
			add(PoolOp{Op: "mine", Kind: []string{"pool", "pool", "pool", "mix", "empty", "other"}[r.Intn(6)], N: r.Range(1, 40)})
		case 2:
			add(PoolOp{Op: "undo", N: r.Range(1, 3)})
		case 3:
			if r.Chance(0.3) {
				// days pass without a sweep, a fresh child arrives, the pool is saved and loaded
				add(PoolOp{Op: "tick", Kind: "nosweep", Ms: []int64{86_400_000, 13 * 86_400_000, 15 * 86_400_000, 16 * 86_400_000}[r.Intn(4)]})
				add(PoolOp{Op: "tx", Kind: "child"})
				if r.Chance(0.7) {
					add(PoolOp{Op: "saveload"})
				}
			} else {
				add(PoolOp{Op: "tick", Ms: []int64{1000, 60_000, 3_700_000, 86_400_000, 16 * 86_400_000}[r.Intn(5)]})
			}
		case 4:
			add(PoolOp{Op: "saveload"})
		case 5:
			if r.Chance(0.3) {
				add(PoolOp{Op: "ranksqueeze", N: r.Range(44, 60)})
			} else {
				add(PoolOp{Op: "rbfstorm", N: r.Range(3, 130)})
			}
		case 6:
			add(PoolOp{Op: "rejectresize"})
		}
	}
	return &hx.Case{Cfg: hx.J(cfg), Ops: ops}
}

type poolRun struct {
	run
	pc      *PoolCfg
	m       *ledger.Miner
	made    map[[32]byte]*ledger.Tx // every transaction the harness ever created
	madeW   map[[32]byte]*ledger.Tx // the same, by wtxid (two versions of one txid may differ in their witnesses)
	orphans []*ledger.Tx            // parents withheld so far
	mined   map[[32]byte]bool       // txids on the active chain (maintained from the model tip)
	tipNode *ledger.Node
	forkCnt uint32
	lowTime bool      // assemble() stamps blocks with the earliest time allowed
	qNext   bool      // submit() queues instead of handling
	queue   []*btc.Tx // wanted, pending, not yet handled by the main thread
}

func (p *poolRun) viol(class, format string, a ...any) {
	p.out.Violate("C12", class, format, a...)
	p.bad = true
}

func goTx(t *ledger.Tx) *btc.Tx {
	raw := t.Bytes(true)
	tx, n := btc.NewTx(raw)
	if tx == nil || n != len(raw) {
		return nil
	}
	tx.SetHash(raw)
	return tx
}

// poolView returns the confirmed view plus outputs of pooled transactions (for generation only).
func (p *poolRun) coinFor(op ledger.OutPoint) (ledger.Coin, bool, bool) {
	if c, ok := p.model.UTXO()[op]; ok {
		return c, true, false
	}
	if t2s, ok := txpool.TransactionsToSend[btc.BIdx(op.Hash[:])]; ok && t2s.Hash.Hash == op.Hash && int(op.N) < len(t2s.TxOut) {
		o := t2s.TxOut[op.N]
		return ledger.Coin{Value: o.Value, Pk: o.Pk_script, Height: p.model.Height + 1}, true, true
	}
	return ledger.Coin{}, false, false
}

func (p *poolRun) poolSpent(op ledger.OutPoint) bool {
	_, ok := txpool.SpentOutputs[btc.UIdx(op.Hash[:], op.N)]
	return ok
}

// submit hands t to the pool through the given path.
// txOf returns the harness's copy of a pooled transaction: the very version (same witness) the pool holds -
// two versions of one txid may have been submitted, e.g. signed with different hash types.
func (p *poolRun) txOf(t2s *txpool.OneTxToSend) *ledger.Tx {
	if t := p.madeW[t2s.WTxID().Hash]; t != nil {
		return t
	}
	return p.made[t2s.Hash.Hash]
}

func (p *poolRun) submit(t *ledger.Tx, path string) bool {
	p.made[t.ID()] = t
	if p.madeW == nil {
		p.madeW = map[[32]byte]*ledger.Tx{}
	}
	p.madeW[t.WID()] = t
	tx := goTx(t)
	if tx == nil {
		p.out.Probe("tx_unparsable", 1)
		return false
	}
	p.out.Probe("tx_submitted", 1)
	var ok bool
	switch path {
	case "local":
		ok = txpool.SubmitLocalTx(tx, tx.Raw)
	default:
		accepted := false
		txpool.NeedThisTxExt(&tx.Hash, func() {
			txpool.TransactionsPending[tx.Hash.BIdx()] = true
			accepted = true
		})
		if !accepted {
			p.out.Probe("tx_not_wanted", 1)
			return false
		}
		if p.qNext && path != "trusted" {
			p.queue = append(p.queue, tx)
			p.out.Probe("tx_queued_behind_next_operation", 1)
			return false
		}
		ok = txpool.HandleNetTx(&txpool.TxRcvd{Tx: tx, FromCID: 1, Trusted: path == "trusted"})
	}
	if ok {
		p.out.Probe("tx_accepted", 1)
	}
	return ok
}

// pickCoins selects spendable coins for a new transaction.
func (p *poolRun) pickCoins(r *hx.Rng, n int, fromPool, conflict bool) []ledger.CoinRef {
	height := p.model.Height + 1
	var cands []ledger.CoinRef
	if fromPool {
		var keys []btc.BIDX
		for k := range txpool.TransactionsToSend {
			keys = append(keys, k)
		}
		sort.Slice(keys, func(i, j int) bool { return bytes.Compare(keys[i][:], keys[j][:]) < 0 })
		for _, k := range keys {
			t2s := txpool.TransactionsToSend[k]
			for vout, o := range t2s.TxOut {
				op := ledger.OutPoint{Hash: t2s.Hash.Hash, N: uint32(vout)}
				if p.poolSpent(op) != conflict {
					continue
				}
				if _, sp := p.m.W.Spendable(o.Pk_script); sp && o.Value > 3000 {
					cands = append(cands, ledger.CoinRef{Op: op, Coin: ledger.Coin{Value: o.Value, Pk: o.Pk_script, Height: height}})
				}
			}
		}
	} else {
		for _, c := range p.m.Spendables(p.model.UTXO(), height, nil) {
			if p.poolSpent(c.Op) == conflict {
				cands = append(cands, c)
			}
		}
	}
	var res []ledger.CoinRef
	for i := 0; i < n && len(cands) > 0; i++ {
		j := r.Intn(len(cands))
		res = append(res, cands[j])
		cands = append(cands[:j], cands[j+1:]...)
	}
	return res
}

func (p *poolRun) doTx(o *PoolOp) {
	r := hx.NewRng(o.Seed)
	p.m.R = r
	height := p.model.Height + 1
	path := "peer"
	kind := o.Kind
	switch kind {
	case "local":
		path, kind = "local", "valid"
	case "trusted":
		path, kind = "trusted", "valid"
	}
	feeFor := func(tot uint64) uint64 {
		f := uint64(r.Range(300, 6000))
		if f > tot/4 {
			f = tot / 4
		}
		return f
	}
	sum := func(ins []ledger.CoinRef) (s uint64) {
		for _, c := range ins {
			s += c.Coin.Value
		}
		return
	}
	switch kind {
	case "valid", "big":
		ins := p.pickCoins(r, 1+r.Pick(60, 30, 10), false, false)
		if len(ins) == 0 {
			return
		}
		t := p.m.MakeTx(height, ins, 1+r.Pick(40, 30, 20, 10), feeFor(sum(ins)), -1, ledger.COk)
		if kind == "big" {
			// a ~100 kB data output: fills the pool up to the size limit
			t.Out = append(t.Out, ledger.TxOut{Value: 0, Pk: append([]byte{0x6a, 0x4e, 0x90, 0x5f, 0x01, 0x00}, make([]byte, 90000)...)})
			t.Out[0].Value -= t.Out[0].Value / 3
			var sp []ledger.Coin
			for _, c := range ins {
				sp = append(sp, c.Coin)
			}
			p.m.SignAll(t, sp, -1, ledger.COk)
		}
		p.submit(t, path)
	case "child":
		ins := p.pickCoins(r, 1+r.Pick(60, 30, 10), true, false)
		if len(ins) == 0 {
			return
		}
		if r.Chance(0.3) {
			ins = append(ins, p.pickCoins(r, 1, false, false)...)
		}
		t := p.m.MakeTx(height, ins, 1+r.Pick(40, 30, 20, 10), feeFor(sum(ins)), -1, ledger.COk)
		if p.submit(t, path) {
			p.out.Probe("unconfirmed_child_accepted", 1)
		}
	case "double-low", "double-high":
		ins := p.pickCoins(r, 1, r.Chance(0.3), true)
		if len(ins) == 0 {
			return
		}
		if r.Chance(0.4) {
			ins = append(ins, p.pickCoins(r, 1, false, false)...)
		}
		fee := uint64(r.Range(1, 250))
		if kind == "double-high" {
			fee = sum(ins) / uint64(r.Range(3, 8))
		}
		t := p.m.MakeTx(height, ins, 1, fee, -1, ledger.COk)
		if p.submit(t, path) {
			p.out.Probe("replacement_accepted", 1)
		} else {
			p.out.Probe("replacement_refused", 1)
		}
	case "double-and-child":
		// a replacement that also spends an output of the very transaction it replaces
		ins := p.pickCoins(r, 1, false, true)
		if len(ins) == 0 {
			return
		}
		k, ok := txpool.SpentOutputs[btc.UIdx(ins[0].Op.Hash[:], ins[0].Op.N)]
		if !ok {
			return
		}
		x := txpool.TransactionsToSend[k]
		if x == nil {
			return
		}
		for vo, out := range x.TxOut {
			if _, sp := p.m.W.Spendable(out.Pk_script); sp && out.Value > 3000 && !p.poolSpent(ledger.OutPoint{Hash: x.Hash.Hash, N: uint32(vo)}) {
				ins = append(ins, ledger.CoinRef{Op: ledger.OutPoint{Hash: x.Hash.Hash, N: uint32(vo)}, Coin: ledger.Coin{Value: out.Value, Pk: out.Pk_script, Height: height}})
				break
			}
		}
		if len(ins) < 2 {
			return
		}
		if r.Chance(0.4) {
			ins = append(ins, p.pickCoins(r, 1, true, false)...) // and something of an unrelated pooled transaction
		}
		t := p.m.MakeTx(height, ins, 1, sum(ins)/uint64(r.Range(3, 8)), -1, ledger.COk)
		p.out.Probe("replacement_spending_its_victim_submitted", 1)
		if p.submit(t, path) {
			p.out.Probe("replacement_spending_its_victim_accepted", 1)
		}
	case "just-mature":
		// spends a coinbase output that is exactly mature for the next block (and immature again if the tip is undone)
		var ins []ledger.CoinRef
		for op, c := range p.model.UTXO() {
			if c.Coinbase && height-c.Height == 100 && !p.poolSpent(op) {
				if _, sp := p.m.W.Spendable(c.Pk); sp && c.Value > 3000 {
					ins = append(ins, ledger.CoinRef{Op: op, Coin: c})
				}
			}
		}
		if len(ins) == 0 {
			return
		}
		sort.Slice(ins, func(i, j int) bool { return bytes.Compare(ins[i].Op.Hash[:], ins[j].Op.Hash[:]) < 0 || (ins[i].Op.Hash == ins[j].Op.Hash && ins[i].Op.N < ins[j].Op.N) })
		ins = ins[:1]
		t := p.m.MakeTx(height, ins, 1, feeFor(sum(ins)), -1, ledger.COk)
		if p.submit(t, path) {
			p.out.Probe("spend_of_just_matured_coinbase_accepted", 1)
		}
	case "just-final":
		// a time lock that the next block just satisfies (and a block after a reorganisation with earlier time stamps may not)
		ins := p.pickCoins(r, 1, false, false)
		if len(ins) == 0 {
			return
		}
		t := p.m.MakeTx(height, ins, 1, feeFor(sum(ins)), -1, ledger.COk)
		t.Lock = p.model.MTP() - 1 - uint32(r.Intn(900))
		t.In[0].Seq = 0xfffffffd
		var sp []ledger.Coin
		for _, c := range ins {
			sp = append(sp, c.Coin)
		}
		p.m.SignAll(t, sp, -1, ledger.COk)
		if p.submit(t, path) {
			p.out.Probe("just_final_time_lock_accepted", 1)
		}
	case "seqlock":
		// a relative lock-time (BIP68) on a confirmed or a pooled output: met exactly / one unit short, by height or by time
		ins := p.pickCoins(r, 1, r.Chance(0.2), false)
		if len(ins) == 0 {
			return
		}
		t := p.m.MakeTx(height, ins, 1, feeFor(sum(ins)), -1, ledger.COk)
		t.Ver = 2
		c := ins[0].Coin
		short := uint32(r.Intn(2))
		if r.Chance(0.6) {
			t.In[0].Seq = (height - c.Height + short) & 0xffff
		} else {
			base := p.l.Genesis.MTP()
			if c.Height >= 1 {
				if a := p.model.Ancestor(c.Height - 1); a != nil {
					base = a.MTP()
				}
			}
			mtp := p.model.MTP()
			if mtp <= base {
				return
			}
			t.In[0].Seq = 1<<22 | ((mtp-base)/512+short)&0xffff
		}
		p.m.SignAll(t, []ledger.Coin{c}, -1, ledger.COk)
		p.out.Probe("relative_lock_time_submitted", 1)
		if p.submit(t, path) {
			p.out.Probe("relative_lock_time_accepted", 1)
		}
	case "orphan":
		ins := p.pickCoins(r, 1, false, false)
		if len(ins) == 0 {
			return
		}
		parent := p.m.MakeTx(height, ins, 2, feeFor(sum(ins)), -1, ledger.COk)
		p.made[parent.ID()] = parent
		var cin []ledger.CoinRef
		for i, x := range parent.Out {
			if _, sp := p.m.W.Spendable(x.Pk); sp && x.Value > 3000 {
				cin = append(cin, ledger.CoinRef{Op: ledger.OutPoint{Hash: parent.ID(), N: uint32(i)}, Coin: ledger.Coin{Value: x.Value, Pk: x.Pk, Height: height}})
			}
		}
		if len(cin) == 0 {
			return
		}
		child := p.m.MakeTx(height, cin[:1], 1, feeFor(cin[0].Coin.Value), -1, ledger.COk)
		if r.Chance(0.3) {
			// a time lock that the next block just satisfies - judged when the orphan is released, against whatever is the tip then
			child.Lock = p.model.MTP() - 1 - uint32(r.Intn(900))
			child.In[0].Seq = 0xfffffffd
			p.m.SignAll(child, []ledger.Coin{cin[0].Coin}, -1, ledger.COk)
			p.out.Probe("orphan_with_a_just_final_time_lock", 1)
		} else if r.Chance(0.25) {
			// the orphan names an output its parent does not have (nobody can tell before the parent shows up)
			child.In[0].Prev.N = uint32(len(parent.Out)) + uint32(r.Intn(2))
			child.Touch()
			p.out.Probe("orphan_spending_an_output_its_parent_lacks", 1)
		}
		p.submit(child, path) // before its parent
		p.orphans = append(p.orphans, parent)
		p.out.Probe("orphan_before_parent", 1)
	case "orphan-parent":
		if len(p.orphans) == 0 {
			return
		}
		j := r.Intn(len(p.orphans))
		t := p.orphans[j]
		p.orphans = append(p.orphans[:j], p.orphans[j+1:]...)
		p.submit(t, path)
	case "badsig":
		ins := p.pickCoins(r, 1+r.Intn(2), r.Chance(0.3), false)
		if len(ins) == 0 {
			return
		}
		t := p.m.MakeTx(height, ins, 1, feeFor(sum(ins)), r.Intn(len(ins)), []int{ledger.CFlipBit, ledger.CWrongKey}[r.Intn(2)])
		if p.submit(t, "peer") {
			for i := range t.In {
				if !t.InputValid(i) {
					p.viol("pool.invalid-script-accepted", "op#%d: a transaction whose input %d carries a corrupted signature was accepted into the pool", o.ID, i)
					return
				}
			}
		}
	case "overspend":
		ins := p.pickCoins(r, 1, false, false)
		if len(ins) == 0 {
			return
		}
		t := p.m.MakeTx(height, ins, 1, 0, -1, ledger.COk)
		t.Out[0].Value = sum(ins) + 1 + uint64(r.Intn(3))
		var sp []ledger.Coin
		for _, c := range ins {
			sp = append(sp, c.Coin)
		}
		p.m.SignAll(t, sp, -1, ledger.COk)
		if p.submit(t, path) {
			p.viol("pool.overspend-accepted", "op#%d: a transaction spending more than its inputs was accepted into the pool", o.ID)
		}
	case "immature":
		var cands []ledger.CoinRef
		for op, c := range p.model.UTXO() {
			if c.Coinbase && height-c.Height < 100 && !p.poolSpent(op) {
				if _, sp := p.m.W.Spendable(c.Pk); sp {
					cands = append(cands, ledger.CoinRef{Op: op, Coin: c})
				}
			}
		}
		if len(cands) == 0 {
			return
		}
		sort.Slice(cands, func(i, j int) bool { return bytes.Compare(cands[i].Op.Hash[:], cands[j].Op.Hash[:]) < 0 })
		c := cands[r.Intn(len(cands))]
		t := p.m.MakeTx(height, []ledger.CoinRef{c}, 1, feeFor(c.Coin.Value), -1, ledger.COk)
		p.submit(t, "peer")
	case "mined-resend":
		if p.model.Blk == nil || len(p.model.Blk.Txs) < 2 {
			return
		}
		u := p.model.UTXO()
		var cands, spent []*ledger.Tx
		for _, t := range p.model.Blk.Txs[1:] {
			cands = append(cands, t)
			gone := true
			for i := range t.Out {
				if _, ok := u[ledger.OutPoint{Hash: t.ID(), N: uint32(i)}]; ok {
					gone = false
				}
			}
			if gone {
				spent = append(spent, t)
			}
		}
		if len(spent) > 0 {
			cands = spent
			p.out.Probe("resend_of_fully_spent_tip_transaction", 1)
		}
		p.submit(cands[r.Intn(len(cands))], "peer")
	case "dup":
		var ids [][32]byte
		for id := range p.made {
			ids = append(ids, id)
		}
		if len(ids) == 0 {
			return
		}
		sort.Slice(ids, func(i, j int) bool { return bytes.Compare(ids[i][:], ids[j][:]) < 0 })
		p.submit(p.made[ids[r.Intn(len(ids))]], path)
		p.out.Probe("duplicate_submission", 1)
	case "dupinput":
		ins := p.pickCoins(r, 1, false, false)
		if len(ins) == 0 {
			return
		}
		ins = append(ins, ins[0])
		t := p.m.MakeTx(height, ins, 1, feeFor(ins[0].Coin.Value), -1, ledger.COk)
		p.submit(t, "peer")
		p.out.Probe("same_input_twice", 1)
	case "nonfinal":
		ins := p.pickCoins(r, 1, false, false)
		if len(ins) == 0 {
			return
		}
		t := p.m.MakeTx(height, ins, 1, feeFor(sum(ins)), -1, ledger.COk)
		t.Lock = height + 5
		t.In[0].Seq = 0xfffffffd
		var sp []ledger.Coin
		for _, c := range ins {
			sp = append(sp, c.Coin)
		}
		p.m.SignAll(t, sp, -1, ledger.COk)
		p.submit(t, "peer")
		p.out.Probe("non_final_submission", 1)
	}
}

// rankSqueeze: one well-paying transaction, then dozens of transactions of equal shape whose fees rise step by step
// without reaching it - each goes into the sorted list right below the first one, above all its predecessors, so
// the gap of sort ranks at that position is halved again and again until the list has to be re-indexed - and in the
// end a child of the two neighbours at the squeezed position (parents first in the listing, whatever the ranks are).
func (p *poolRun) rankSqueeze(o *PoolOp) {
	r := hx.NewRng(o.Seed)
	p.m.R = r
	height := p.model.Height + 1
	fixed := p.m.W.Script(ledger.KP2PKH, 0)
	// coins of one script and one size, so that all the transactions weigh the same: a fan-out transaction, mined first
	var big *ledger.CoinRef
	for _, c := range p.m.Spendables(p.model.UTXO(), height, nil) {
		c := c
		if !p.poolSpent(c.Op) && c.Coin.Value > 400_000_000 && (big == nil || c.Coin.Value > big.Coin.Value) {
			big = &c
		}
	}
	if big == nil {
		return
	}
	fan := &ledger.Tx{Ver: 2, In: []ledger.TxIn{{Prev: big.Op, Seq: 0xffffffff}}}
	for k := 0; k < o.N+4; k++ {
		fan.Out = append(fan.Out, ledger.TxOut{Value: 5_000_000, Pk: fixed})
	}
	fan.Out = append(fan.Out, ledger.TxOut{Value: big.Coin.Value - uint64(o.N+4)*5_000_000 - 10_000, Pk: fixed})
	p.m.SignAll(fan, []ledger.Coin{big.Coin}, -1, ledger.COk)
	p.made[fan.ID()] = fan
	fb := p.assemble([]*ledger.Tx{fan}, "fan-out")
	if !p.deliverBlock(fb, fmt.Sprintf("op#%d ranksqueeze fan-out block", o.ID)) {
		return
	}
	height = p.model.Height + 1
	var coins []ledger.CoinRef
	for k := 0; k < o.N+4; k++ {
		coins = append(coins, ledger.CoinRef{Op: ledger.OutPoint{Hash: fan.ID(), N: uint32(k)}, Coin: ledger.Coin{Value: 5_000_000, Pk: fixed, Height: height - 1}})
	}
	mk := func(c ledger.CoinRef, fee uint64) *ledger.Tx {
		t := &ledger.Tx{Ver: 2, In: []ledger.TxIn{{Prev: c.Op, Seq: 0xffffffff}}, Out: []ledger.TxOut{{Value: c.Coin.Value - fee, Pk: fixed}}}
		p.m.SignAll(t, []ledger.Coin{c.Coin}, -1, ledger.COk)
		return t
	}
	top := mk(coins[0], 900_000)
	_ = height
	if !p.submit(top, "peer") {
		return
	}
	var last *ledger.Tx
	n := 0
	for i := 1; i < len(coins) && n < o.N; i++ {
		t := mk(coins[i], 100_000+uint64(n)*1000) // (equal weights: a higher fee is a higher rate)
		if p.submit(t, "peer") {
			last = t
			n++
		}
	}
	p.out.Probe("rank_squeeze_insertions", int64(n))
	if last == nil {
		return
	}
	// the child of the two neighbours: the better one (top) in its first input
	cin := []ledger.CoinRef{
		{Op: ledger.OutPoint{Hash: top.ID(), N: 0}, Coin: ledger.Coin{Value: top.Out[0].Value, Pk: fixed, Height: height}},
		{Op: ledger.OutPoint{Hash: last.ID(), N: 0}, Coin: ledger.Coin{Value: last.Out[0].Value, Pk: fixed, Height: height}},
	}
	child := &ledger.Tx{Ver: 2, In: []ledger.TxIn{{Prev: cin[0].Op, Seq: 0xffffffff}, {Prev: cin[1].Op, Seq: 0xffffffff}},
		Out: []ledger.TxOut{{Value: cin[0].Coin.Value + cin[1].Coin.Value - 600_000, Pk: fixed}}}
	p.m.SignAll(child, []ledger.Coin{cin[0].Coin, cin[1].Coin}, -1, ledger.COk)
	if p.submit(child, "peer") {
		p.out.Probe("rank_squeeze_child_accepted", 1)
	}
}

// rbfStorm builds a long chain of descendants and then tries to replace its root.
func (p *poolRun) rbfStorm(o *PoolOp) {
	r := hx.NewRng(o.Seed)
	p.m.R = r
	height := p.model.Height + 1
	ins := p.pickCoins(r, 1, false, false)
	if len(ins) == 0 {
		return
	}
	root := p.m.MakeTx(height, ins, 1, 400, -1, ledger.COk)
	if _, sp := p.m.W.Spendable(root.Out[0].Pk); !sp {
		root.Out[0].Pk = p.m.W.Script(ledger.KP2PKH, r.Intn(p.m.W.NKeys()))
		p.m.SignAll(root, []ledger.Coin{ins[0].Coin}, -1, ledger.COk)
	}
	if !p.submit(root, "peer") {
		return
	}
	cur := root
	cnt := 0
	for i := 0; i < o.N; i++ {
		x := cur.Out[0]
		if _, sp := p.m.W.Spendable(x.Pk); !sp || x.Value < 5000 {
			break
		}
		c := ledger.CoinRef{Op: ledger.OutPoint{Hash: cur.ID(), N: 0}, Coin: ledger.Coin{Value: x.Value, Pk: x.Pk, Height: height}}
		nx := p.m.MakeTx(height, []ledger.CoinRef{c}, 1, 300, -1, ledger.COk)
		if _, sp := p.m.W.Spendable(nx.Out[0].Pk); !sp {
			nx.Out[0].Pk = p.m.W.Script(ledger.KP2PKH, r.Intn(p.m.W.NKeys()))
			p.m.SignAll(nx, []ledger.Coin{c.Coin}, -1, ledger.COk)
		}
		if !p.submit(nx, "peer") {
			break
		}
		cur = nx
		cnt++
	}
	p.out.Probe("descendant_chain_built", 1)
	if cnt > 100 {
		p.out.Probe("rbf_gt_100", 1)
	}
	// now the conflicting replacement of the root with a much higher fee
	rep := p.m.MakeTx(height, ins, 1, ins[0].Coin.Value/3, -1, ledger.COk)
	if p.submit(rep, "peer") {
		p.out.Probe("replacement_accepted", 1)
	}
}

// ---------------------------------------------------------------- blocks

func (p *poolRun) deliverBlock(b *ledger.Block, when string) bool {
	ln := p.l.Add(b, 1<<40)
	raw := b.Bytes()
	bl, er := btc.NewBlock(raw)
	if er != nil {
		p.viol("pool.block-unparsable", "%s: %v", when, er)
		return false
	}
	if p.pc.CommitFlag {
		txpool.BlockCommitInProgress(true)
	}
	p.n.Ch.Unspent.AbortWriting()
	_, _, e := p.n.Ch.CheckBlock(bl)
	if e == nil {
		e = p.n.Ch.AcceptBlock(bl)
	}
	if p.pc.CommitFlag {
		txpool.BlockCommitInProgress(false)
	}
	// what LocalAcceptBlock / HandleRpcBlock do afterwards
	common.Last.Mutex.Lock()
	common.Last.Block = p.n.Ch.LastBlock()
	common.Last.Mutex.Unlock()
	common.UpdateScriptFlags(bl.VerifyFlags)
	if ln == nil {
		p.viol("pool.block-orphan", "%s: harness built a block on an unknown parent", when)
		return false
	}
	if e != nil {
		if ln.Valid() {
			p.viol("block.valid-refused", "%s: block %s (height %d, %d transactions, %s) is valid per the reference ledger but the node refused it: %v", when, hs(ln.Hash), ln.Height, len(b.Txs), b.Label, e)
		}
		return false
	}
	if !ln.Valid() {
		p.viol("block.invalid-accepted", "%s: the node accepted block %s which the reference ledger calls invalid (%s)", when, hs(ln.Hash), ln.Clause)
		return false
	}
	p.status[ln.Hash] = 1
	if ln.CumWork.Cmp(p.model.CumWork) > 0 {
		if ln.Parent != p.model {
			p.out.Probe("reorg", 1)
		}
		p.model = ln
	}
	return true
}

// assemble makes a block on the model tip out of the given transactions (in that order).
func (p *poolRun) assemble(txs []*ledger.Tx, label string) *ledger.Block {
	parent := p.model
	height := parent.Height + 1
	view := map[ledger.OutPoint]ledger.Coin{}
	for k, v := range parent.UTXO() {
		view[k] = v
	}
	var fees uint64
	for _, t := range txs {
		var in, out uint64
		for _, i := range t.In {
			in += view[i.Prev].Value
		}
		for _, x := range t.Out {
			out += x.Value
		}
		if in >= out {
			fees += in - out
		}
		id := t.ID()
		for i, x := range t.Out {
			view[ledger.OutPoint{Hash: id, N: uint32(i)}] = ledger.Coin{Value: x.Value, Pk: x.Pk, Height: height}
		}
	}
	p.forkCnt++
	cb := p.m.Coinbase(height, ledger.Subsidy(height)+fees, 2, 0x10000+p.forkCnt)
	b := &ledger.Block{Label: label}
	b.Txs = append([]*ledger.Tx{cb}, txs...)
	b.H.Ver = 0x20000000
	b.H.Prev = parent.Hash
	b.H.Time = parent.Time + 600
	if mtp := parent.MTP(); b.H.Time <= mtp || p.lowTime {
		b.H.Time = mtp + 1
	}
	b.H.Bits = p.l.ExpectedBits(parent, b.H.Time)
	p.m.Finish(parent, b)
	return b
}

func (p *poolRun) doMine(o *PoolOp) {
	r := hx.NewRng(o.Seed)
	p.m.R = r
	when := fmt.Sprintf("op#%d mine(%s)", o.ID, o.Kind)
	var txs []*ledger.Tx
	switch o.Kind {
	case "pool", "mix":
		txpool.TxMutex.Lock()
		var list []*txpool.OneTxToSend
		if r.Chance(0.7) {
			list = txpool.GetSortedMempoolRBF()
		} else {
			list = txpool.GetSortedMempool()
		}
		txpool.TxMutex.Unlock()
		weight := 0
		for i, t2s := range list {
			if i >= o.N {
				break
			}
			t := p.txOf(t2s)
			if t == nil {
				p.viol("pool.unknown-tx", "%s: the listing contains %s which nobody submitted", when, hs(t2s.Hash.Hash))
				return
			}
			if weight+t.Weight() > 3_900_000 {
				break
			}
			weight += t.Weight()
			txs = append(txs, t)
		}
		if o.Kind == "mix" {
			// plus transactions the pool does not know: fresh ones and conflicts with pooled ones
			used := map[ledger.OutPoint]bool{}
			for _, t := range txs {
				for _, in := range t.In {
					used[in.Prev] = true
				}
			}
			for k := 0; k < 1+r.Intn(3); k++ {
				ins := p.pickCoins(r, 1, false, r.Chance(0.5))
				if len(ins) == 0 || used[ins[0].Op] {
					continue
				}
				used[ins[0].Op] = true
				t := p.m.MakeTx(p.model.Height+1, ins, 1+r.Intn(2), uint64(r.Range(100, 2000)), -1, ledger.COk)
				p.made[t.ID()] = t
				txs = append(txs, t)
				p.out.Probe("block_with_unknown_or_conflicting_tx", 1)
			}
		}
		if len(txs) > 0 {
			p.out.Probe("block_from_pool_listing", 1)
		}
	case "other":
		if len(p.orphans) > 0 && r.Chance(0.5) {
			// the withheld parent of an orphan is mined without ever having been relayed to us
			j := r.Intn(len(p.orphans))
			t := p.orphans[j]
			ok := true
			for _, in := range t.In {
				if _, has := p.model.UTXO()[in.Prev]; !has || p.poolSpent(in.Prev) {
					ok = false
				}
			}
			if ok {
				p.orphans = append(p.orphans[:j], p.orphans[j+1:]...)
				txs = append(txs, t)
				p.out.Probe("withheld_parent_of_an_orphan_mined_unseen", 1)
				break
			}
		}
		// a transaction the pool has not seen; its 1-3 inputs may each be spent by a different pooled transaction
		ins := p.pickCoins(r, 1+r.Pick(50, 30, 20), false, r.Chance(0.6))
		if len(ins) > 1 {
			p.out.Probe("block_with_tx_conflicting_on_several_inputs", 1)
		}
		if len(ins) > 0 {
			t := p.m.MakeTx(p.model.Height+1, ins, 1+r.Intn(2), uint64(r.Range(100, 2000)), -1, ledger.COk)
			p.made[t.ID()] = t
			txs = append(txs, t)
		}
	}
	b := p.assemble(txs, "mine-"+o.Kind)
	// the ledger judges the block assembled from the listing
	if cl, _ := p.l.Check(p.model, b, 1<<40); cl != "" && (o.Kind == "pool") {
		p.viol("listing.not-minable", "%s: a block assembled from the first %d transactions of the pool's fee-ordered listing is invalid per the reference ledger: %s", when, len(txs), cl)
		return
	}
	if p.deliverBlock(b, when) && len(txs) > 0 {
		p.out.Probe("block_connected_with_txs", 1)
	}
}

func (p *poolRun) doUndo(o *PoolOp) {
	r := hx.NewRng(o.Seed)
	p.m.R = r
	d := uint32(o.N)
	if p.model.Height < prefixLen+d {
		return
	}
	anc := p.model.Ancestor(p.model.Height - d)
	if anc == nil || !p.isChainBlock(anc) {
		return
	}
	old := p.model
	// a competing branch of d+1 coinbase-only blocks (sometimes stamped as early as allowed: the median time goes back)
	p.lowTime = r.Chance(0.4)
	defer func() { p.lowTime = false }()
	oldMTP := p.model.MTP()
	defer func() {
		if p.model != old && p.model.MTP() < oldMTP {
			p.out.Probe("median_time_went_back_in_reorg", 1)
		}
	}()
	cur := anc
	saved := p.model
	for i := uint32(0); i <= d; i++ {
		p.model = cur
		var ftxs []*ledger.Tx
		if i == d && len(p.orphans) > 0 && r.Chance(0.6) {
			// the branch that wins mines the withheld parent of an orphan: the orphan is released while the
			// reorganisation is still going on
			j := r.Intn(len(p.orphans))
			t, ok := p.orphans[j], true
			for _, in := range t.In {
				if _, has := cur.UTXO()[in.Prev]; !has || p.poolSpent(in.Prev) {
					ok = false
				}
			}
			if ok {
				p.orphans = append(p.orphans[:j], p.orphans[j+1:]...)
				ftxs = []*ledger.Tx{t}
				p.out.Probe("withheld_parent_mined_by_the_winning_branch", 1)
			}
		}
		b := p.assemble(ftxs, "fork")
		p.model = saved
		ln := p.l.Add(b, 1<<40)
		if ln == nil {
			return
		}
		if !p.deliverBlock(b, fmt.Sprintf("op#%d undo(%d) fork block %d", o.ID, d, i)) {
			return
		}
		saved = p.model
		cur = ln
	}
	if p.model != old {
		p.out.Probe("blocks_undone", int64(d))
	}
}

func (p *poolRun) isChainBlock(n *ledger.Node) bool { return n != nil && n.Valid() }

// ---------------------------------------------------------------- invariants

func (p *poolRun) checkPool(when string) {
	if p.bad {
		return
	}
	txpool.TxMutex.Lock()
	defer txpool.TxMutex.Unlock()
	view := p.model.UTXO()
	// txids of the active chain beyond the prefix
	onChain := map[[32]byte]bool{}
	for n := p.model; n != nil && n.Blk != nil && !p.isPrefix[n.Hash]; n = n.Parent {
		for _, t := range n.Blk.Txs[1:] {
			onChain[t.ID()] = true
		}
	}
	spentBy := map[ledger.OutPoint][32]byte{}
	var wsum uint64
	var fsum uint64
	keys := make([]btc.BIDX, 0, len(txpool.TransactionsToSend))
	for k := range txpool.TransactionsToSend {
		keys = append(keys, k)
	}
	sort.Slice(keys, func(i, j int) bool { return bytes.Compare(keys[i][:], keys[j][:]) < 0 })
	for _, k := range keys {
		t2s := txpool.TransactionsToSend[k]
		id := t2s.Hash.Hash
		if btc.BIdx(id[:]) != k {
			p.viol("pool.index-key", "%s: pool entry keyed %x holds transaction %s", when, k, hs(id))
			return
		}
		lt := p.txOf(t2s)
		if lt == nil {
			p.viol("pool.unknown-tx", "%s: the pool holds %s which nobody submitted", when, hs(id))
			return
		}
		if onChain[id] {
			p.viol("pool.duplicates-chain", "%s: pooled transaction %s is already part of the active chain", when, hs(id))
			return
		}
		if !ledger.IsFinal(lt, p.model.Height+1, p.model.MTP()) {
			p.viol("listing.not-minable", "%s: pooled transaction %s (lock time %d, sequence %#x) is not final for the next block (height %d, median time past %d): a block assembled from the listing is invalid", when, hs(id), lt.Lock, lt.In[0].Seq, p.model.Height+1, p.model.MTP())
			return
		}
		var in uint64
		mem := 0
		for i, ti := range lt.In {
			if other, dup := spentBy[ti.Prev]; dup {
				p.viol("pool.double-spend", "%s: output %s:%d is spent by two pooled transactions (%s and %s)", when, hs(ti.Prev.Hash), ti.Prev.N, hs(other), hs(id))
				return
			}
			spentBy[ti.Prev] = id
			if par, ok := txpool.TransactionsToSend[btc.BIdx(ti.Prev.Hash[:])]; ok && par.Hash.Hash == ti.Prev.Hash {
				if int(ti.Prev.N) >= len(par.TxOut) {
					p.viol("pool.input-missing", "%s: pooled %s spends output %d of pooled %s which has only %d outputs", when, hs(id), ti.Prev.N, hs(ti.Prev.Hash), len(par.TxOut))
					return
				}
				in += par.TxOut[ti.Prev.N].Value
				mem++
				if t2s.MemInputs == nil || i >= len(t2s.MemInputs) || !t2s.MemInputs[i] {
					p.viol("pool.meminputs-flag", "%s: input %d of pooled %s is an output of pooled %s but is not flagged as a memory input", when, i, hs(id), hs(ti.Prev.Hash))
					return
				}
			} else if c, ok := view[ti.Prev]; ok {
				in += c.Value
				if t2s.MemInputs != nil && i < len(t2s.MemInputs) && t2s.MemInputs[i] {
					p.viol("pool.meminputs-flag", "%s: input %d of pooled %s is a confirmed unspent output but is flagged as a memory input", when, i, hs(id))
					return
				}
			} else {
				p.viol("pool.input-not-spendable", "%s: input %d (%s:%d) of pooled transaction %s is neither an unspent confirmed output nor an output of a pooled transaction", when, i, hs(ti.Prev.Hash), ti.Prev.N, hs(id))
				return
			}
			if so, ok := txpool.SpentOutputs[btc.UIdx(ti.Prev.Hash[:], ti.Prev.N)]; !ok || so != k {
				p.viol("pool.spentoutputs-index", "%s: SpentOutputs has no (or a wrong) entry for input %d of pooled %s", when, i, hs(id))
				return
			}
		}
		if csv := p.l.P.CSVHeight; csv != 0 && p.model.Height+1 >= csv {
			coins := make([]ledger.Coin, len(lt.In))
			for i, ti := range lt.In {
				if c, ok := view[ti.Prev]; ok {
					coins[i] = c
				} else {
					coins[i].Height = p.model.Height + 1 // an output of a pooled transaction: confirmed in the next block at the earliest
				}
			}
			if !p.l.SequenceLocksMet(lt, coins, p.model.Height+1, p.model) {
				p.viol("listing.not-minable", "%s: pooled transaction %s (version %d, sequence of input 0 %#x) does not meet its relative lock-time (BIP68) in the next block (height %d): a block assembled from the listing is invalid", when, hs(id), lt.Ver, lt.In[0].Seq, p.model.Height+1)
				return
			}
		}
		if uint32(mem) != t2s.MemInputCnt {
			p.viol("pool.meminputs-count", "%s: pooled %s has %d inputs from pooled parents, MemInputCnt says %d", when, hs(id), mem, t2s.MemInputCnt)
			return
		}
		var outv uint64
		for _, x := range lt.Out {
			outv += x.Value
		}
		if outv > in {
			p.viol("pool.overspend", "%s: pooled %s spends %d with inputs worth %d", when, hs(id), outv, in)
			return
		}
		if t2s.Fee != in-outv || t2s.Volume != in {
			p.viol("pool.fee", "%s: pooled %s records fee=%d volume=%d, recomputed fee=%d volume=%d", when, hs(id), t2s.Fee, t2s.Volume, in-outv, in)
			return
		}
		w := lt.Weight()
		if t2s.Weight() != w || t2s.VSize() != (w+3)/4 {
			p.viol("pool.size", "%s: pooled %s records weight=%d vsize=%d, recomputed from its bytes weight=%d vsize=%d", when, hs(id), t2s.Weight(), t2s.VSize(), w, (w+3)/4)
			return
		}
		wsum += uint64(w)
		fsum += uint64(t2s.Footprint)
	}
	if len(txpool.SpentOutputs) != len(spentBy) {
		p.viol("pool.spentoutputs-index", "%s: SpentOutputs holds %d entries, the pooled transactions have %d inputs", when, len(txpool.SpentOutputs), len(spentBy))
		return
	}
	if txpool.TransactionsToSendWeight != wsum || txpool.TransactionsToSendSize != fsum {
		p.viol("pool.counters", "%s: TransactionsToSendWeight=%d Size=%d, the sums over the pool are weight=%d footprint=%d", when, txpool.TransactionsToSendWeight, txpool.TransactionsToSendSize, wsum, fsum)
		return
	}
	for name, list := range map[string][]*txpool.OneTxToSend{"GetSortedMempool": txpool.GetSortedMempool(), "GetSortedMempoolRBF": txpool.GetSortedMempoolRBF()} {
		pos := map[[32]byte]int{}
		for i, t2s := range list {
			if _, dup := pos[t2s.Hash.Hash]; dup {
				p.viol("listing.duplicate", "%s: %s lists %s twice", when, name, hs(t2s.Hash.Hash))
				return
			}
			pos[t2s.Hash.Hash] = i
		}
		if len(list) != len(txpool.TransactionsToSend) {
			p.viol("listing.not-a-permutation", "%s: %s lists %d transactions, the pool holds %d", when, name, len(list), len(txpool.TransactionsToSend))
			return
		}
		for i, t2s := range list {
			lt := p.txOf(t2s)
			if lt == nil {
				continue
			}
			for _, ti := range lt.In {
				if pi, ok := pos[ti.Prev.Hash]; ok && pi > i {
					p.viol("listing.child-before-parent", "%s: %s places %s (position %d) before its parent %s (position %d)", when, name, hs(t2s.Hash.Hash), i, hs(ti.Prev.Hash), pi)
					return
				}
			}
		}
	}
	bad := txpool.MempoolCheck() // "make sure to call it with TxMutex locked"
	if bad {
		p.viol("pool.mempoolcheck", "%s: txpool.MempoolCheck() reports an inconsistency (see the child's output)", when)
		return
	}
	p.out.Probe("pool_checked", 1)
	if n := len(txpool.TransactionsToSend); n > 0 {
		p.out.Probe("pool_checked_nonempty", 1)
	}
}

func (PoolH) Run(t *testing.T, c *hx.Case) *hx.Outcome {
	out := &hx.Outcome{}
	pc := &PoolCfg{}
	if err := json.Unmarshal(c.Cfg, pc); err != nil {
		out.Inconclusive = "bad cfg: " + err.Error()
		return out
	}
	cfg := &pc.Cfg
	var ops []*PoolOp
	for _, raw := range c.Ops {
		var o PoolOp
		if json.Unmarshal(raw, &o) == nil {
			ops = append(ops, &o)
		}
	}
	td := ensureTemplate(cfg, out)
	root := hx.RunDir("pool", c.Seed)
	defer os.RemoveAll(root)
	dir := filepath.Join(root, "node")
	if err := simos.CopyTree(td, dir); err != nil {
		fmt.Fprintln(os.Stderr, "poolsim: copy template:", err)
		os.Exit(2)
	}
	os.Remove(filepath.Join(dir, "ok"))
	simos.Reset(dir)
	p := &poolRun{pc: pc, made: map[[32]byte]*ledger.Tx{}}
	p.prop, p.cfg, p.out, p.dir = "C12", cfg, out, dir
	p.status, p.waiting, p.isPrefix = map[[32]byte]int{}, map[[32]byte][]int{}, map[[32]byte]bool{}
	var tip *ledger.Node
	p.l, tip = newLedger(cfg)
	p.model = tip
	for n := tip; n != nil; n = n.Parent {
		p.isPrefix[n.Hash] = true
	}
	p.m = &ledger.Miner{L: p.l, W: ledger.NewWallet(walletSeed, walletKeys), R: hx.NewRng(1)}
	registerPrefixScripts(p.m.W, cfg.Testnet)

	scfg := simrt.Config{Seed: cfg.SchedSeed, YieldP: cfg.YieldP, TimerP: cfg.TimerP, MaxConsec: cfg.MaxConsec, StepBudget: 60_000_000, PCT: cfg.PCT, PCTSteps: cfg.PCTSteps, ChildFirstP: cfg.ChildFirstP}
	res := simrt.Run(scfg, func() {
		simrt.Sleep(time.Unix(cfg.Now0, 0).Sub(time.Now()))
		// configuration as client/init.go + common.Reset() do it
		common.CFG.Testnet = cfg.Testnet
		common.Testnet = cfg.Testnet
		common.CFG.Memory.GCPercTrshold = 100
		common.CFG.TXPool.Enabled = true
		common.CFG.TXPool.AllowMemInputs = true
		common.CFG.TXPool.FeePerByte = pc.FeePerByte
		common.CFG.TXPool.MaxTxWeight = 400000
		common.CFG.TXPool.MaxSizeMB = 10
		common.CFG.TXPool.ExpireInDays = pc.ExpireDays
		common.CFG.TXPool.MaxRejectMB = 1
		common.CFG.TXPool.MaxNoUtxoMB = 0.5
		common.CFG.TXPool.RejectRecCnt = pc.RejectRecCnt
		common.CFG.TXPool.NotFullRBF = pc.NotFullRBF
		common.CFG.TXPool.SaveOnDisk = true
		common.CFG.WebUI.AllowedIP = "127.0.0.1"
		common.GocoinHomeDir = dir + "/"
		common.Reset()
		p.boot()
		p.n.Ch.CB.BlockMinedCB = mainlib.BlockMinedCB // client/main.go: blockMined (txpool.BlockMined + fee statistics)
		p.n.Ch.CB.BlockUndoneCB = mainlib.BlockUndoneCB
		common.BlockChain = p.n.Ch
		common.Last.Mutex.Lock()
		common.Last.Block = p.n.Ch.LastBlock()
		common.Last.Mutex.Unlock()
		common.UpdateScriptFlags(0)
		txpool.InitMempool()
		for _, o := range ops {
			if p.bad {
				break
			}
			when := fmt.Sprintf("after op#%d %s %s", o.ID, o.Op, o.Kind)
			queued := p.queue
			p.queue = nil
			if len(queued) > 0 {
				when += fmt.Sprintf(" and the handling of %d transaction(s) queued before it", len(queued))
			}
			switch o.Op {
			case "tx":
				p.qNext = o.Q
				p.doTx(o)
				p.qNext = false
			case "rbfstorm":
				p.rbfStorm(o)
			case "ranksqueeze":
				p.rankSqueeze(o)
			case "mine":
				p.doMine(o)
			case "undo":
				p.doUndo(o)
			case "tick":
				simrt.Sleep(time.Duration(o.Ms) * time.Millisecond)
				if o.Kind == "nosweep" {
					// time passes without the housekeeping tick getting its turn (busy or suspended node)
					out.Fault("clock_jump_without_sweep", 1)
					break
				}
				before := len(txpool.TransactionsToSend)
				txpool.Tick()
				if n := before - len(txpool.TransactionsToSend); n > 0 {
					out.Probe("expired_or_evicted_on_tick", int64(n))
				}
				out.Fault("clock_jump", 1)
			case "rejectresize":
				common.CFG.TXPool.RejectRecCnt = uint16(100 + hx.NewRng(o.Seed).Intn(400))
				common.Reset()
				txpool.Tick()
			case "saveload":
				var before []string
				for _, t2s := range txpool.TransactionsToSend {
					before = append(before, hs(t2s.Hash.Hash))
				}
				sort.Strings(before)
				txpool.MempoolSave(true)
				txpool.InitMempool()
				ok := txpool.MempoolLoad()
				var after []string
				for _, t2s := range txpool.TransactionsToSend {
					after = append(after, hs(t2s.Hash.Hash))
				}
				sort.Strings(after)
				if !ok || fmt.Sprint(before) != fmt.Sprint(after) {
					p.viol("pool.save-load", "%s: MempoolLoad()=%v; pool before saving %v, after reloading %v", when, ok, before, after)
				}
				out.Probe("save_load", 1)
			}
			for _, tx := range queued {
				if txpool.HandleNetTx(&txpool.TxRcvd{Tx: tx, FromCID: 1}) {
					out.Probe("tx_accepted", 1)
					out.Probe("queued_tx_accepted", 1)
				}
			}
			if big := txpool.TransactionsToSendSize; big > 9_000_000 {
				out.Probe("pool_above_9MB", 1)
			}
			p.checkPool(when)
			if !p.bad {
				p.compareState(when)
			}
		}
		if !p.bad {
			p.n.Close()
		}
	})
	out.Evals = 1
	var ol []string
	for i, o := range ops {
		if i >= 60 {
			ol = append(ol, "...")
			break
		}
		ol = append(ol, fmt.Sprintf("%s %s n=%d", o.Op, o.Kind, o.N))
	}
	sc := *pc
	sc.Blocks = nil
	out.Sample = map[string]any{"cfg": sc, "ops": ol}
	if !out.Absorb("C12", "history", &res) {
		return out
	}
	out.StateHash = fmt.Sprintf("%x/%d/%d", p.model.Hash[:6], len(p.model.UTXO()), len(p.made))
	return out
}
