package chainsim

// netsim (C18): real client/network message handling on simulated
// connections.  The node is chain + txpool + peers database + network; each
// simulated peer is a generator of message sequences (valid, structurally
// mutated, random) delivered through sim/simnet with fragmentation, delays,
// resets and write failures.

import (
	"bytes"
	"crypto/sha256"
	"encoding/binary"
	"encoding/json"
	"fmt"
	"os"
	"path/filepath"
	"strings"
	"testing"
	"time"

	"github.com/piotrnar/gocoin/client/common"
	"github.com/piotrnar/gocoin/client/mainlib"
	"github.com/piotrnar/gocoin/client/network"
	"github.com/piotrnar/gocoin/client/peersdb"
	"github.com/piotrnar/gocoin/client/txpool"
	"github.com/piotrnar/gocoin/lib/others/qdb"
	"github.com/piotrnar/gocoin/lib/others/siphash"

	"verif/harness/hx"
	"verif/harness/ledger"
	"verif/sim/simnet"
	"verif/sim/simos"
	"verif/sim/simrt"
)

type NetCfg struct {
	Cfg
	Peers int `json:"peers"`
}

type NetMsg struct {
	P       int    `json:"p"`   // peer
	Cmd     string `json:"cmd"` // command (may be unknown)
	Kind    string `json:"kind"`
	Seed    uint64 `json:"seed"`
	DelayMs int    `json:"delay_ms"`
	HdrMut  string `json:"hdr_mut,omitempty"` // magic checksum length-short length-long length-huge
	Reset   bool   `json:"reset,omitempty"`   // reset the connection somewhere inside this message
	ID      int    `json:"id"`
}

type NetH struct{}

func (NetH) Name() string { return "netsim" }

func (NetH) Prepare(t *testing.T, c *hx.Case) {
	nc := &NetCfg{}
	if json.Unmarshal(c.Cfg, nc) == nil {
		ensureTemplate(&nc.Cfg, &hx.Outcome{})
		if usesKit(c.Ops) {
			l, tip := newLedger(&nc.Cfg)
			m := &ledger.Miner{L: l, W: ledger.NewWallet(walletSeed, walletKeys), R: hx.NewRng(1)}
			registerPrefixScripts(m.W, false)
			if b := kitBlock(l, tip, m); b != nil {
				ensureKit(b)
			}
		}
	}
}

func usesKit(ops []json.RawMessage) bool {
	for _, raw := range ops {
		var m NetMsg
		if json.Unmarshal(raw, &m) == nil && (strings.HasPrefix(m.Kind, "kit-") || m.Kind == "cb-collide" || m.Kind == "blk-kit") {
			return true
		}
	}
	return false
}

var netCmds = []string{"version", "verack", "addr", "inv", "getdata", "notfound", "getblocks", "getheaders", "headers", "tx", "block",
	"cmpctblock", "getblocktxn", "blocktxn", "ping", "pong", "feefilter", "sendcmpct", "sendheaders", "getaddr", "getmp", "xauth", "authack", "getmpdone", "mempool", "filterload", "wtfisthis", ""}

func (NetH) Gen(prop string, seed uint64, tier string) *hx.Case {
	r := hx.NewRng(seed)
	cfg := &NetCfg{}
	cfg.Testnet = false
	cfg.P = baseParams(false)
	cfg.CacheBlocks = 10
	cfg.SkipSave = 100
	cfg.MaxConsec = []int{200, 2000, 20000}[r.Intn(3)]
	cfg.SchedSeed = r.U64()
	cfg.YieldP = []float64{0, 0.02, 0.1}[r.Intn(3)]
	if r.Chance(0.3) {
		cfg.TimerP = 0.05
	}
	if r.Chance(0.25) {
		cfg.PCT, cfg.PCTSteps = r.Range(1, 4), []int{1000, 10000, 100000}[r.Intn(3)]
	}
	if r.Chance(0.25) {
		cfg.ChildFirstP = []float64{0.2, 0.6, 1}[r.Intn(3)]
	}
	cfg.Peers = 1 + r.Pick(50, 25, 15, 10)
	var ops []json.RawMessage
	id := 0
	for p := 0; p < cfg.Peers; p++ {
		n := r.Range(1, 40)
		if r.Chance(0.3) {
			n = r.Range(1, 6)
		}
		withVersion := r.Chance(0.85)
		if r.Chance(0.4) {
			// a scripted compact-block conversation (BIP152), possibly ending in a malformed or incomplete step,
			// with unrelated traffic in between
			add := func(cmd, kind string) {
				id++
				ops = append(ops, hx.J(NetMsg{P: p, ID: id, Seed: r.U64(), Cmd: cmd, Kind: kind, DelayMs: []int{0, 0, 1, 5, 11, 30}[r.Intn(6)]}))
			}
			noise := func() {
				for r.Chance(0.25) {
					add(netCmds[r.Intn(len(netCmds))], []string{"valid", "mutate", "trunc", "random"}[r.Intn(4)])
				}
			}
			slow := func(cmd, kind string) { // leaves the node's 100 ms connection tick time to act first
				id++
				ops = append(ops, hx.J(NetMsg{P: p, ID: id, Seed: r.U64(), Cmd: cmd, Kind: kind, DelayMs: r.Range(120, 600)}))
			}
			add("version", "valid")
			add("verack", "valid")
			if r.Chance(0.85) {
				add("sendcmpct", "valid")
			}
			if r.Chance(0.8) {
				slow("headers", "hdr-empty") // answer to the node's getheaders: nothing new - only now does it ask this peer for blocks
			}
			for round := 0; round < 1+r.Intn(3); round++ {
				noise()
				switch r.Pick(30, 15, 20, 15, 20, 8, 8, 12) {
				case 7: // plain transaction relay: a few transactions (some pay too little to be passed on), then the peer asks for them
					for k := 0; k < 1+r.Intn(3); k++ {
						add("tx", "valid")
					}
					noise()
					add("getdata", "valid")
				case 5: // two relayed transactions share a short id under the announcement's key
					k := []string{"kit-tx1", "kit-tx2"}
					if r.Chance(0.5) {
						k[0], k[1] = k[1], k[0]
					}
					add("tx", k[0])
					if r.Chance(0.85) {
						add("tx", k[1])
					}
					noise()
					add("cmpctblock", "cb-collide")
					if r.Chance(0.5) {
						slow("block", "blk-kit")
					}
				case 4: // headers first; the node asks for the block with getdata; the peer answers with the block, or with something else
					add("headers", "hdr-new")
					switch r.Intn(6) {
					case 4, 5:
						slow("block", "blk-rule")
					case 0:
						slow("block", "blk-planned")
					case 1:
						switch r.Intn(3) {
						case 0:
							slow("block", "blk-planned")
						case 1:
							slow("block", "blk-malleated")
						default:
							// a corrupt copy of the block (the node keeps waiting for a good one), then the same header
							// over the transactions of another block
							slow("block", "blk-malleated")
							add("block", "blk-otherbody")
						}
					case 2:
						slow("blocktxn", []string{"bt-valid", "bt-none", "bt-wrong"}[r.Intn(3)])
					default:
						slow("cmpctblock", "cb-short")
						add("blocktxn", []string{"bt-valid", "bt-fewer"}[r.Intn(2)])
					}
				case 0: // announce by short ids; the node asks for what it misses; answer (or not quite)
					add("cmpctblock", "cb-short")
					noise()
					add("blocktxn", []string{"bt-valid", "bt-valid", "bt-fewer", "bt-none", "bt-wrong", "bt-trunc", "bt-extra", "bt-dup", "bt-size-loop"}[r.Intn(9)])
				case 1: // the block's transactions are relayed first, then the block is announced by short ids
					for k := 0; k < 1+r.Intn(3); k++ {
						add("tx", "blocktx")
					}
					add("cmpctblock", "cb-short")
					if r.Chance(0.5) {
						add("blocktxn", []string{"bt-valid", "bt-fewer", "bt-none"}[r.Intn(3)])
					}
				case 2: // a malformed announcement
					add("cmpctblock", []string{"cb-idx-overflow", "cb-idx-overflow", "cb-prefilled-trunc", "cb-neg-witness", "cb-dup-shortid", "cb-count-mismatch", "cb-full", "cb-size-loop", "cb-rule", "cb-rule"}[r.Intn(10)])
				case 6: // the header of a sibling of the tip (a dead side branch), then questions that name it
					add("headers", "hdr-side")
					noise()
					add([]string{"getheaders", "getheaders", "getblocks", "getdata"}[r.Intn(4)], "ask-side")
				case 3: // the peer asks for transactions of a block the node has
					add("getblocktxn", []string{"gbt-valid", "gbt-range", "gbt-huge", "gbt-wrap", "gbt-many", "gbt-wrap-many"}[r.Intn(6)])
				}
			}
			noise()
			continue
		}
		for i := 0; i < n; i++ {
			id++
			m := NetMsg{P: p, ID: id, Seed: r.U64(), DelayMs: []int{0, 0, 0, 1, 5, 9, 11, 30, 500}[r.Intn(9)]}
			if i == 0 && withVersion {
				m.Cmd, m.Kind = "version", "valid"
				if r.Chance(0.15) {
					m.Kind = []string{"short82", "trunc", "random", "badagentlen", "mutate", "agentlen-huge"}[r.Intn(6)]
				} else if p > 0 && r.Chance(0.3) {
					m.Kind = "samenonce" // the nonce another connection has used (looks like a connection to ourselves)
				}
			} else if i == 1 && withVersion && r.Chance(0.7) {
				m.Cmd, m.Kind = "verack", "valid"
			} else {
				m.Cmd = netCmds[r.Intn(len(netCmds))]
				m.Kind = []string{"valid", "valid", "mutate", "mutate", "trunc", "extend", "random", "empty", "count", "max", "count-wrap", "lencut", "count-huge"}[r.Intn(13)]
			}
			if r.Chance(0.03) {
				m.HdrMut = []string{"magic", "checksum", "length-short", "length-long", "length-huge", "length-enc-zero"}[r.Intn(6)]
			}
			if r.Chance(0.02) {
				m.Reset = true
			}
			ops = append(ops, hx.J(m))
		}
	}
	// direct calls of library parsers (no peer involved)
	if r.Chance(0.5) {
		for k := r.Range(1, 25); k > 0; k-- {
			id++
			ops = append(ops, hx.J(NetMsg{P: r.Intn(cfg.Peers), ID: id, Seed: r.U64(), Cmd: "lib", Kind: "lib"}))
		}
	}
	// interleave the peers' sequences; the order within a peer is kept (in one case out of ten it is not:
	// messages before the handshake, replies before requests)
	if r.Chance(0.1) {
		for i := len(ops) - 1; i > 0; i-- {
			j := r.Intn(i + 1)
			ops[i], ops[j] = ops[j], ops[i]
		}
		return &hx.Case{Cfg: hx.J(cfg), Ops: ops}
	}
	queues := make([][]json.RawMessage, cfg.Peers)
	for _, o := range ops {
		var m NetMsg
		json.Unmarshal(o, &m)
		queues[m.P] = append(queues[m.P], o)
	}
	var merged []json.RawMessage
	for len(merged) < len(ops) {
		p := r.Intn(cfg.Peers)
		if len(queues[p]) == 0 {
			continue
		}
		// bursts: a peer usually sends a few messages in a row
		k := 1 + r.Intn(4)
		for ; k > 0 && len(queues[p]) > 0; k-- {
			merged = append(merged, queues[p][0])
			queues[p] = queues[p][1:]
		}
	}
	return &hx.Case{Cfg: hx.J(cfg), Ops: merged}
}

// ---------------------------------------------------------------- message construction

var netMagic = [4]byte{0xf9, 0xbe, 0xb4, 0xd9}

func wireMsg(cmd string, pl []byte, hdrMut string, r *hx.Rng) []byte {
	var h [24]byte
	copy(h[0:4], netMagic[:])
	copy(h[4:16], cmd)
	binary.LittleEndian.PutUint32(h[16:20], uint32(len(pl)))
	s1 := sha256.Sum256(pl)
	s2 := sha256.Sum256(s1[:])
	copy(h[20:24], s2[:4])
	switch hdrMut {
	case "magic":
		h[r.Intn(4)] ^= 0x40
	case "checksum":
		h[20] ^= 1
	case "length-short":
		if len(pl) > 0 {
			binary.LittleEndian.PutUint32(h[16:20], uint32(r.Intn(len(pl))))
		}
	case "length-long":
		binary.LittleEndian.PutUint32(h[16:20], uint32(len(pl)+1+r.Intn(50)))
	case "length-huge":
		binary.LittleEndian.PutUint32(h[16:20], []uint32{0x7fffffff, 0xffffffff, 4000001, 0x80000010}[r.Intn(4)])
	case "length-enc-zero":
		// "encrypted" flag (top bit) with a length of zero: no payload follows
		binary.LittleEndian.PutUint32(h[16:20], 0x80000000)
		return h[:]
	}
	return append(h[:], pl...)
}

func vint(v uint64) []byte {
	var b bytes.Buffer
	ledger.PutVarInt(&b, v)
	return b.Bytes()
}

// oddVint encodes v in a non-minimal CompactSize form.
func oddVint(v uint64, form int) []byte {
	switch form % 3 {
	case 0:
		return []byte{0xfd, byte(v), byte(v >> 8)}
	case 1:
		return []byte{0xfe, byte(v), byte(v >> 8), byte(v >> 16), byte(v >> 24)}
	}
	b := make([]byte, 9)
	b[0] = 0xff
	binary.LittleEndian.PutUint64(b[1:], v)
	return b
}

func netAddr(r *hx.Rng, withTime bool) []byte {
	var b bytes.Buffer
	if withTime {
		binary.Write(&b, binary.LittleEndian, uint32(genesisTime+uint32(r.Intn(100000))))
	}
	binary.Write(&b, binary.LittleEndian, uint64(1|8))
	b.Write([]byte{0, 0, 0, 0, 0, 0, 0, 0, 0, 0, 0xff, 0xff, byte(1 + r.Intn(222)), byte(r.Intn(256)), byte(r.Intn(256)), byte(1 + r.Intn(250))})
	b.Write([]byte{0x20, 0x8d})
	return b.Bytes()
}

type netRun struct {
	poolRun
	nc      *NetCfg
	conns   []*simnet.Conn
	ocs     []*network.OneConnection
	done    []bool // Run() returned
	known   [][32]byte
	stop    bool
	maxStep int
	nonces  [][]byte // nonces of the version messages sent so far
	pend    [64][32]byte
	npend   int
	plans   map[int]*cbPlan // per peer: the block of the compact-block conversation in progress
	kit     *sidKit
	kitBlk  *ledger.Block
	side    [][32]byte // headers of dead side branches sent so far
	planned []plannedBlock
	lastSpent []byte     // the script spent by input 0 of the transaction someTx made last
	relayed   [][32]byte // txids of the transactions made for this node so far
	cver    map[int]int     // per peer: compact-block version announced with sendcmpct
}

// noteConnected / syncModel hand the hashes of blocks the node has connected from the main-loop goroutine to
// the feeding goroutine without creating happens-before edges the race detector could see.
//
//go:norace
func (n *netRun) noteConnected(h [32]byte) {
	if n.npend < len(n.pend) {
		n.pend[n.npend] = h
		n.npend++
	}
}

//go:norace
func (n *netRun) takeConnected() (hs [][32]byte) {
	simrt.RaceOff()
	for i := 0; i < n.npend; i++ {
		hs = append(hs, n.pend[i])
	}
	simrt.RaceOn()
	n.npend = 0
	return
}

// syncModel: later blocks and transactions are built on what the node has connected.
func (n *netRun) syncModel() {
	for _, h := range n.takeConnected() {
		if ln := n.l.Nodes[h]; ln != nil && ln.Valid() && ln.CumWork.Cmp(n.model.CumWork) > 0 {
			n.model = ln
		}
	}
}

// cbPlan is a peer's side of a BIP152 exchange.
type cbPlan struct {
	blk     *ledger.Block
	sentTx  int   // transactions of blk already relayed as "tx" messages
	missing []int // indexes announced by short id in the last cmpctblock
}

func (n *netRun) plan(p int, r *hx.Rng) *cbPlan {
	if n.plans == nil {
		n.plans, n.cver = map[int]*cbPlan{}, map[int]int{}
	}
	if pl := n.plans[p]; pl != nil {
		return pl
	}
	bl := n.newBlocksN(r, 1, 1+r.Intn(4))
	if len(bl) == 0 {
		return nil
	}
	n.plans[p] = &cbPlan{blk: bl[0]}
	n.planned = append(n.planned, plannedBlock{hash: bl[0].Hash(), prev: bl[0].H.Prev, raw: append([]byte{}, bl[0].Bytes()...), hdr: append([]byte{}, bl[0].H.Bytes()...), height: n.model.Height + 1})
	return n.plans[p]
}

// plannedBlock is a valid block some peer's conversation was about, as it was built (a conversation may go on
// to spoil its own copy).
type plannedBlock struct {
	hash, prev [32]byte
	raw, hdr   []byte
	height     uint32
}

// sentMessages parses what the node has written to a connection so far, from offset *off on.
func sentMessages(buf []byte, off *int) (res [][2][]byte) {
	for *off+24 <= len(buf) {
		b := buf[*off:]
		ln := int(binary.LittleEndian.Uint32(b[16:20]))
		if 24+ln > len(b) {
			break
		}
		cmd := bytes.TrimRight(b[4:16], "\x00")
		res = append(res, [2][]byte{cmd, b[24 : 24+ln]})
		*off += 24 + ln
	}
	return
}

func shortID(hdr, nonce []byte, t *ledger.Tx, ver int) []byte {
	h := sha256.New()
	h.Write(hdr)
	h.Write(nonce)
	kk := h.Sum(nil)
	k0, k1 := binary.LittleEndian.Uint64(kk[0:8]), binary.LittleEndian.Uint64(kk[8:16])
	id := t.ID()
	if ver == 2 {
		id = t.WID()
	}
	var b [8]byte
	binary.LittleEndian.PutUint64(b[:], siphash.Hash(k0, k1, id[:]))
	return b[:6]
}

// cmpct builds a cmpctblock payload: prefilled[i] says whether transaction i travels in full.
func (n *netRun) cmpct(p int, b *ledger.Block, nonce []byte, prefilled []bool) []byte {
	var w bytes.Buffer
	hdr := b.H.Bytes()
	w.Write(hdr)
	w.Write(nonce)
	ns := 0
	for i := range b.Txs {
		if !prefilled[i] {
			ns++
		}
	}
	w.Write(vint(uint64(ns)))
	for i, t := range b.Txs {
		if !prefilled[i] {
			w.Write(shortID(hdr, nonce, t, n.cver[p]))
		}
	}
	w.Write(vint(uint64(len(b.Txs) - ns)))
	last := -1
	for i, t := range b.Txs {
		if prefilled[i] {
			w.Write(vint(uint64(i - last - 1)))
			w.Write(t.Bytes(true))
			last = i
		}
	}
	return w.Bytes()
}

func (n *netRun) versionPayload(r *hx.Rng, height uint32) []byte {
	return n.versionPayloadN(r, height, false)
}

// versionPayloadN: sameNonce re-uses the nonce an earlier version message (of any peer) carried.
func (n *netRun) versionPayloadN(r *hx.Rng, height uint32, sameNonce bool) []byte {
	var b bytes.Buffer
	binary.Write(&b, binary.LittleEndian, uint32(70016))
	binary.Write(&b, binary.LittleEndian, uint64(1|8|1024))
	binary.Write(&b, binary.LittleEndian, uint64(time.Now().Unix()))
	b.Write(netAddr(r, false))
	b.Write(netAddr(r, false))
	nonce := r.Bytes(8)
	if sameNonce && len(n.nonces) > 0 {
		nonce = n.nonces[r.Intn(len(n.nonces))]
	}
	n.nonces = append(n.nonces, nonce)
	b.Write(nonce)
	agent := "/Satoshi:25.0.0/"
	b.Write(vint(uint64(len(agent))))
	b.WriteString(agent)
	binary.Write(&b, binary.LittleEndian, height)
	b.WriteByte(1)
	return b.Bytes()
}

func (n *netRun) someHash(r *hx.Rng) [32]byte {
	if r.Chance(0.7) && len(n.known) > 0 {
		return n.known[r.Intn(len(n.known))]
	}
	var h [32]byte
	copy(h[:], r.Bytes(32))
	return h
}

func (n *netRun) invPayload(r *hx.Rng, cnt int) []byte {
	var b bytes.Buffer
	b.Write(vint(uint64(cnt)))
	for i := 0; i < cnt; i++ {
		binary.Write(&b, binary.LittleEndian, []uint32{1, 2, 3, 4, 0x40000001, 0x40000002, 0, 77}[r.Intn(8)])
		h := n.someHash(r)
		b.Write(h[:])
	}
	return b.Bytes()
}

func (n *netRun) locator(r *hx.Rng) []byte {
	var b bytes.Buffer
	binary.Write(&b, binary.LittleEndian, uint32(70016))
	cnt := r.Range(0, 12)
	b.Write(vint(uint64(cnt)))
	for i := 0; i < cnt; i++ {
		h := n.someHash(r)
		b.Write(h[:])
	}
	if r.Chance(0.5) {
		b.Write(make([]byte, 32))
	} else {
		h := n.someHash(r)
		b.Write(h[:])
	}
	return b.Bytes()
}

// newBlocks builds k valid blocks on the current tip (not added to the node).
func (n *netRun) newBlocks(r *hx.Rng, k int) []*ledger.Block { return n.newBlocksN(r, k, -1) }

func (n *netRun) newBlocksN(r *hx.Rng, k, ntx int) []*ledger.Block {
	n.m.R = r
	var res []*ledger.Block
	cur := n.model
	for i := 0; i < k; i++ {
		nt := ntx
		if nt < 0 {
			nt = r.Intn(4)
		}
		b, ok := n.m.Build(cur, ledger.BlockOpts{NTx: nt})
		if !ok {
			break
		}
		ln := n.l.Add(b, 1<<40)
		if ln == nil {
			break
		}
		res = append(res, b)
		cur = ln
	}
	return res
}

func (n *netRun) someTx(r *hx.Rng) *ledger.Tx {
	n.m.R = r
	ins := n.pickCoins(r, 1, false, false)
	if len(ins) == 0 {
		return nil
	}
	fee := uint64(r.Range(500, 5000))
	if r.Chance(0.4) {
		fee = uint64(r.Range(2, 14)) // enough for the pool, too little to be relayed further: pooled but "blocked"
	}
	t := n.m.MakeTx(n.model.Height+1, ins, 1+r.Intn(2), fee, -1, ledger.COk)
	n.made[t.ID()] = t
	n.lastSpent = ins[0].Coin.Pk
	n.relayed = append(n.relayed, t.ID())
	return t
}

// panicSite extracts from the report printed by OneConnection.Run's catch-all recover the panic value and the
// innermost function of the project on the stack.
func panicSite(rep string) (where, what string) {
	i := strings.Index(rep, "Make sure to include the data below:")
	if i < 0 {
		return "", ""
	}
	lines := strings.Split(rep[i:], "\n")
	for _, l := range lines[1:] {
		if t := strings.TrimSpace(l); t != "" {
			what = t
			break
		}
	}
	seenPanic := false
	for _, l := range lines {
		if strings.HasPrefix(l, "panic(") {
			seenPanic = true
			continue
		}
		if seenPanic && strings.Contains(l, "github.com/piotrnar/gocoin/") && !strings.HasPrefix(l, "\t") {
			f := l[strings.LastIndex(l, "/")+1:]
			if k := strings.LastIndex(f, "("); k > 0 {
				f = f[:k]
			}
			return f, what
		}
	}
	return "unknown", what
}

// sizeLoopTx is a "transaction" whose counts are astronomically large while its length fields are chosen
// (CompactSize values of 2^63 and more, i.e. negative once converted to int) so that a size scanner which
// adds them up makes no progress through the buffer.
func sizeLoopTx(r *hx.Rng) []byte {
	neg := func(v int64) []byte {
		b := make([]byte, 9)
		b[0] = 0xff
		binary.LittleEndian.PutUint64(b[1:], uint64(v))
		return b
	}
	var w bytes.Buffer
	switch r.Intn(3) {
	case 0: // 2^62 inputs, each of size 36+9+len+4 = 0
		w.Write([]byte{1, 0, 0, 0})
		w.Write([]byte{0xff, 0, 0, 0, 0, 0, 0, 0, 0x40})
		w.Write(make([]byte, 36))
		w.Write(neg(-49))
	case 1: // one input, 2^62 outputs of size 8+9+len = 0
		w.Write([]byte{1, 0, 0, 0, 1})
		w.Write(make([]byte, 36))
		w.Write([]byte{0, 0xff, 0xff, 0xff, 0xff})
		w.Write([]byte{0xff, 0, 0, 0, 0, 0, 0, 0, 0x40})
		w.Write(make([]byte, 8))
		w.Write(neg(-17))
	default: // segwit: one input, one output, 2^62 witness items of size 9+len = 0
		w.Write([]byte{2, 0, 0, 0, 0, 1, 1})
		w.Write(make([]byte, 36))
		w.Write([]byte{0, 0xff, 0xff, 0xff, 0xff, 1, 0, 0, 0, 0, 0, 0, 0, 0, 0})
		w.Write([]byte{0xff, 0, 0, 0, 0, 0, 0, 0, 0x40})
		w.Write(neg(-9))
	}
	w.Write(make([]byte, 16))
	return w.Bytes()
}

// convPayload builds the messages of the scripted compact-block conversations.
func (n *netRun) convPayload(m *NetMsg, r *hx.Rng) (pl []byte, ok bool) {
	p := m.P
	if n.plans == nil {
		n.plans, n.cver = map[int]*cbPlan{}, map[int]int{}
	}
	switch m.Kind {
	case "kit-tx1", "kit-tx2", "cb-collide", "blk-kit":
		if n.kit == nil {
			return nil, false
		}
		switch m.Kind {
		case "kit-tx1":
			return n.kit.tx1, true
		case "kit-tx2":
			return n.kit.tx2, true
		case "blk-kit":
			return n.kitBlk.Bytes(), true
		}
		// the announcement: the coinbase in full, the colliding id (and perhaps a few unknown ones) as short ids
		var w bytes.Buffer
		w.Write(n.kitBlk.H.Bytes())
		w.Write(n.kit.nonce)
		extra := r.Intn(3)
		at := r.Intn(extra + 1)
		w.Write(vint(uint64(extra + 1)))
		for i := 0; i <= extra; i++ {
			if i == at {
				w.Write(n.kit.sid)
			} else {
				w.Write(r.Bytes(6))
			}
		}
		w.Write(vint(1))
		w.Write(vint(0))
		w.Write(n.kitBlk.Txs[0].Bytes(true))
		n.out.Probe("cmpctblock_with_colliding_short_ids", 1)
		return w.Bytes(), true
	case "hdr-side":
		// a block on the tip's parent: a sibling of the tip, known by its header only and never extended
		par := n.model.Parent
		if par == nil || !par.Valid() {
			return nil, false
		}
		n.m.R = r
		b, ok := n.m.Build(par, ledger.BlockOpts{NTx: 0})
		if !ok || n.l.Add(b, 1<<40) == nil {
			return nil, false
		}
		n.side = append(n.side, b.Hash())
		n.out.Probe("header_of_a_dead_side_branch_sent", 1)
		return append(append(vint(1), b.H.Bytes()...), 0), true
	case "ask-side":
		if len(n.side) == 0 {
			return nil, false
		}
		h := n.side[r.Intn(len(n.side))]
		var w bytes.Buffer
		if m.Cmd == "getdata" {
			w.Write(vint(1))
			binary.Write(&w, binary.LittleEndian, uint32([]uint32{2, 0x40000002, 4}[r.Intn(3)]))
			w.Write(h[:])
			return w.Bytes(), true
		}
		binary.Write(&w, binary.LittleEndian, uint32(70016))
		w.Write(vint(uint64(1 + r.Intn(2))))
		w.Write(h[:])
		if w.Bytes()[4] == 2 {
			k := n.someHash(r)
			w.Write(k[:])
		}
		w.Write(make([]byte, 32))
		return w.Bytes(), true
	case "hdr-empty":
		return vint(0), true
	case "hdr-new":
		cp := n.plan(p, r)
		if cp == nil {
			return nil, false
		}
		return append(append(vint(1), cp.blk.H.Bytes()...), 0), true
	case "blk-planned":
		cp := n.plan(p, r)
		if cp == nil {
			return nil, false
		}
		delete(n.plans, p)
		return cp.blk.Bytes(), true
	case "blk-malleated":
		// the planned block with one byte of witness data changed: header, txids and merkle root are those of the
		// valid block, the witness commitment does not match any more (anybody relaying the block can do this)
		cp := n.plan(p, r)
		if cp == nil {
			return nil, false
		}
		raw := append([]byte{}, cp.blk.Bytes()...)
		cb := cp.blk.Txs[0]
		if !cb.HasWitness() || len(cb.In[0].Wit) == 0 || len(cb.In[0].Wit[0]) != 32 {
			return raw, true
		}
		cbRaw := cb.Bytes(true)
		at := bytes.Index(raw, cbRaw)
		if at < 0 {
			return raw, true
		}
		raw[at+len(cbRaw)-4-1-r.Intn(32)] ^= 0x01 // a byte of the 32-byte nonce in front of the lock time
		n.out.Probe("witness_malleated_copy_of_a_valid_block_sent", 1)
		return raw, true
	case "blk-otherbody":
		// the planned block's header followed by the transactions of a sibling block (consistent among themselves:
		// own witness commitment), i.e. a body that does not hash to the header's merkle root
		cp := n.plan(p, r)
		if cp == nil {
			return nil, false
		}
		par := n.l.Nodes[cp.blk.H.Prev]
		if par == nil {
			return cp.blk.Bytes(), true
		}
		n.m.R = r
		other, ok := n.m.Build(par, ledger.BlockOpts{NTx: 1 + r.Intn(3)})
		if !ok || len(other.Txs) == 0 {
			return cp.blk.Bytes(), true
		}
		raw := append([]byte{}, cp.blk.H.Bytes()...)
		raw = append(raw, other.Bytes()[80:]...)
		n.out.Probe("planned_header_over_another_blocks_transactions_sent", 1)
		return raw, true
	case "blk-rule":
		// a well-formed block that breaks one header / structure / commitment rule (C05's catalogue)
		cp := n.plan(p, r)
		if cp == nil {
			return nil, false
		}
		delete(n.plans, p)
		n.m.R = r
		kind := ledger.C05Violations[r.Intn(len(ledger.C05Violations))]
		if kind == "weight-over" || kind == "time-future" || r.Chance(0.4) {
			// the commitment family is what the network path checks after the header has been accepted
			kind = []string{"witness-nonce-size", "witness-nonce-size", "witness-commit-wrong", "witness-missing-commit", "witness-commit-two"}[r.Intn(5)]
		}
		if len(cp.blk.Txs) > 2 && r.Chance(0.3) {
			kind = "empty-vout" // (several transactions fail the context-free checks, which run in parallel)
		}
		par := n.l.Nodes[cp.blk.H.Prev]
		if par == nil || !n.m.MutateC05(par, cp.blk, kind, time.Now().Unix()) {
			return cp.blk.Bytes(), true
		}
		return cp.blk.Bytes(), true
	case "blocktx":
		// relay the next transaction of the block that will be announced
		cp := n.plan(p, r)
		if cp == nil || cp.sentTx+1 >= len(cp.blk.Txs) {
			return nil, false
		}
		cp.sentTx++
		return cp.blk.Txs[cp.sentTx].Bytes(true), true
	case "cb-short", "cb-full", "cb-rule", "cb-idx-overflow", "cb-prefilled-trunc", "cb-neg-witness", "cb-dup-shortid", "cb-count-mismatch", "cb-size-loop":
		cp := n.plan(p, r)
		if cp == nil {
			return nil, false
		}
		if m.Kind == "cb-rule" {
			// the announced block breaks a commitment rule: found only after the node has put it together
			n.m.R = r
			kind := []string{"witness-nonce-size", "witness-nonce-size", "witness-commit-wrong", "witness-missing-commit", "witness-commit-two", "bad-merkle", "merkle-dup"}[r.Intn(7)]
			if par := n.l.Nodes[cp.blk.H.Prev]; par != nil {
				n.m.MutateC05(par, cp.blk, kind, time.Now().Unix())
			}
		}
		b := cp.blk
		nonce := r.Bytes(8)
		pre := make([]bool, len(b.Txs))
		pre[0] = true
		switch m.Kind {
		case "cb-full", "cb-rule":
			for i := range pre {
				pre[i] = m.Kind == "cb-full" || r.Chance(0.7)
			}
			pre[0] = true
		case "cb-short":
			for i := 1; i < len(pre); i++ {
				pre[i] = r.Chance(0.2)
			}
		}
		cp.missing = nil
		for i := range pre {
			if !pre[i] {
				cp.missing = append(cp.missing, i)
			}
		}
		pl = n.cmpct(p, b, nonce, pre)
		hdr := b.H.Bytes()
		switch m.Kind {
		case "cb-idx-overflow":
			// differential indexes that add up beyond the number of transactions (each one alone is in range)
			var w bytes.Buffer
			w.Write(hdr)
			w.Write(nonce)
			nshort := r.Intn(2)
			w.Write(vint(uint64(nshort)))
			for i := 0; i < nshort; i++ {
				w.Write(r.Bytes(6))
			}
			cb := b.Txs[0].Bytes(true)
			w.Write(vint(2))
			total := nshort + 2
			first := r.Intn(total)
			w.Write(vint(uint64(first)))
			w.Write(cb)
			w.Write(vint(uint64(total - 1 - r.Intn(total-first)))) // < total, but first+1+this >= total
			w.Write(cb)
			pl = w.Bytes()
		case "cb-prefilled-trunc":
			// the last prefilled transaction claims more bytes (script / witness item length) than the message has
			cut := 1 + r.Intn(40)
			if cut >= len(pl)-100 {
				cut = 1
			}
			pl = pl[:len(pl)-cut]
		case "cb-neg-witness":
			// a prefilled segwit transaction whose witness item length does not fit an int
			var w bytes.Buffer
			w.Write(hdr)
			w.Write(nonce)
			w.Write(vint(0))
			w.Write(vint(1))
			w.Write(vint(0))
			w.Write([]byte{2, 0, 0, 0, 0, 1, 1})                                   // version, marker+flag, one input
			w.Write(make([]byte, 36))                                              // prevout
			w.Write([]byte{0, 0xff, 0xff, 0xff, 0xff, 1, 0, 0, 0, 0, 0, 0, 0, 0, 0}) // empty script, sequence, one output of value 0, empty script
			w.Write([]byte{1})                                                     // one witness item ...
			w.Write([][]byte{{0xff, 0, 0, 0, 0, 0, 0, 0, 0x80}, {0xff, 0xff, 0xff, 0xff, 0xff, 0xff, 0xff, 0xff, 0xff}, {0xfe, 0xff, 0xff, 0xff, 0x7f}, {0xff, 0xf0, 0xff, 0xff, 0xff, 0xff, 0xff, 0xff, 0x7f}}[r.Intn(4)])
			w.Write(r.Bytes(r.Intn(12)))
			pl = w.Bytes()
		case "cb-size-loop":
			var w bytes.Buffer
			w.Write(hdr)
			w.Write(nonce)
			w.Write(vint(0))
			w.Write(vint(1))
			w.Write(vint(0))
			w.Write(sizeLoopTx(r))
			pl = w.Bytes()
		case "cb-dup-shortid":
			var w bytes.Buffer
			w.Write(hdr)
			w.Write(nonce)
			w.Write(vint(2))
			sid := r.Bytes(6)
			w.Write(sid)
			w.Write(sid)
			w.Write(vint(1))
			w.Write(vint(0))
			w.Write(b.Txs[0].Bytes(true))
			pl = w.Bytes()
		case "cb-count-mismatch":
			// counts that disagree with the bytes that follow
			off := 88
			c := [][]byte{vint(uint64(len(cp.missing)) + 1 + uint64(r.Intn(3))), {0xfd, 0xff, 0xff}, {0xfe, 0xff, 0xff, 0xff, 0x7f}, {0xff, 0xff, 0xff, 0xff, 0xff, 0xff, 0xff, 0xff, 0xff}, vint(50000)}[r.Intn(5)]
			pl = append(append(append([]byte{}, pl[:off]...), c...), pl[off+1:]...)
		}
		return pl, true
	case "bt-valid", "bt-fewer", "bt-none", "bt-wrong", "bt-trunc", "bt-extra", "bt-dup", "bt-size-loop":
		cp := n.plans[p]
		var h [32]byte
		var txs []*ledger.Tx
		if cp != nil {
			h = cp.blk.Hash()
			for _, i := range cp.missing {
				txs = append(txs, cp.blk.Txs[i])
			}
		} else {
			h = n.someHash(r)
		}
		switch m.Kind {
		case "bt-fewer":
			if len(txs) > 0 {
				txs = txs[:r.Intn(len(txs))]
			}
		case "bt-none":
			txs = nil
		case "bt-wrong":
			if t := n.someTx(r); t != nil {
				txs = append([]*ledger.Tx{t}, txs...)
			}
		case "bt-extra":
			if t := n.someTx(r); t != nil {
				txs = append(txs, t)
			}
		case "bt-dup":
			if len(txs) > 0 {
				txs = append(txs, txs[0])
			}
		}
		var w bytes.Buffer
		w.Write(h[:])
		w.Write(vint(uint64(len(txs))))
		for _, t := range txs {
			w.Write(t.Bytes(true))
		}
		pl = w.Bytes()
		if m.Kind == "bt-size-loop" {
			pl = append(pl, sizeLoopTx(r)...)
		}
		if m.Kind == "bt-trunc" && len(pl) > 40 {
			pl = pl[:len(pl)-1-r.Intn(min(30, len(pl)-34))]
		}
		if m.Kind == "bt-valid" {
			delete(n.plans, p) // the next conversation of this peer announces a new block
		}
		return pl, true
	case "gbt-valid", "gbt-range", "gbt-huge", "gbt-wrap", "gbt-many", "gbt-wrap-many":
		// a block the node has on disk: the tip (or a recent ancestor)
		ln := n.model
		for k := r.Intn(3); k > 0 && ln.Parent != nil && ln.Parent.Blk != nil; k-- {
			ln = ln.Parent
		}
		if ln.Blk == nil {
			return nil, false
		}
		ntx := uint64(len(ln.Blk.Txs))
		var idx []uint64
		switch m.Kind {
		case "gbt-valid":
			idx = []uint64{0}
		case "gbt-range":
			idx = []uint64{ntx + uint64(r.Intn(3))}
		case "gbt-huge":
			idx = []uint64{[]uint64{1 << 63, ^uint64(0), 1<<63 + 5, 1<<64 - 2}[r.Intn(4)]}
		case "gbt-wrap":
			idx = []uint64{0, ^uint64(0)} // the second differential index wraps the running index back to 0
		case "gbt-many":
			for i := 0; i < 2+r.Intn(5); i++ {
				idx = append(idx, uint64(r.Intn(2)))
			}
		case "gbt-wrap-many":
			// every further differential index of 2^64-1 names the same transaction again
			idx = []uint64{uint64(r.Intn(int(ntx)))}
			for i := 0; i < 200+r.Intn(800); i++ {
				idx = append(idx, ^uint64(0))
			}
		}
		var w bytes.Buffer
		w.Write(ln.Hash[:])
		w.Write(vint(uint64(len(idx))))
		for _, v := range idx {
			w.Write(vint(v))
		}
		return w.Bytes(), true
	}
	return nil, false
}

// payload builds the payload for one generated message.
func (n *netRun) payload(m *NetMsg, r *hx.Rng) []byte {
	if pl, ok := n.convPayload(m, r); ok {
		return pl
	}
	if m.Cmd == "sendcmpct" && m.Kind == "valid" {
		if n.cver == nil {
			n.plans, n.cver = map[int]*cbPlan{}, map[int]int{}
		}
		n.cver[m.P] = 2
	}
	var pl []byte
	switch m.Cmd {
	case "version":
		// the peer claims to be at our height or ahead of us (only then are blocks asked from it)
		pl = n.versionPayloadN(r, n.model.Height+[]uint32{0, 1, 3, 100}[r.Intn(4)], m.Kind == "samenonce")
	case "addr":
		cnt := r.Range(0, 12)
		if r.Chance(0.3) {
			cnt = r.Range(15, 60)
		}
		// time stamps: long ago, now, hours and days ahead of the node's clock
		base := time.Now().Unix() + []int64{-86400 * 30, -600, 0, 3500, 3700, 7300, 86400 * 3}[r.Intn(7)]
		mixed := r.Chance(0.3)
		pl = vint(uint64(cnt))
		for i := 0; i < cnt; i++ {
			a := netAddr(r, true)
			ts := base
			if mixed {
				ts = time.Now().Unix() + []int64{-86400 * 30, -600, 0, 3700, 86400 * 3}[r.Intn(5)]
			}
			binary.LittleEndian.PutUint32(a[0:4], uint32(ts))
			pl = append(pl, a...)
		}
	case "inv", "getdata", "notfound":
		pl = n.invPayload(r, r.Range(0, 20))
		if m.Cmd == "getdata" && len(n.relayed) > 0 && r.Chance(0.5) {
			// ask for transactions this node has been sent (pooled, pooled but not to be relayed, rejected, mined)
			var w bytes.Buffer
			k := 1 + r.Intn(4)
			w.Write(vint(uint64(k)))
			for i := 0; i < k; i++ {
				binary.Write(&w, binary.LittleEndian, uint32([]uint32{1, 0x40000001}[r.Intn(2)]))
				h := n.relayed[r.Intn(len(n.relayed))]
				if r.Chance(0.6) {
					h = n.relayed[len(n.relayed)-1-r.Intn(min(3, len(n.relayed)))] // one of the latest
				}
				w.Write(h[:])
			}
			pl = w.Bytes()
			n.out.Probe("getdata_for_transactions_sent_earlier", 1)
		}
	case "getblocks", "getheaders":
		pl = n.locator(r)
	case "headers":
		bl := n.newBlocks(r, r.Range(0, 3))
		pl = vint(uint64(len(bl)))
		for _, b := range bl {
			pl = append(pl, b.H.Bytes()...)
			pl = append(pl, 0)
		}
	case "tx":
		if t := n.someTx(r); t != nil {
			pl = t.Bytes(true)
		}
	case "block":
		if r.Chance(0.5) {
			if bl := n.newBlocks(r, 1); len(bl) > 0 {
				pl = bl[0].Bytes()
			}
		} else if n.model.Blk != nil {
			pl = n.model.Blk.Bytes()
		}
	case "cmpctblock":
		if bl := n.newBlocks(r, 1); len(bl) > 0 {
			b := bl[0]
			var w bytes.Buffer
			w.Write(b.H.Bytes())
			w.Write(r.Bytes(8))
			w.Write(vint(0)) // no short ids: everything prefilled
			w.Write(vint(uint64(len(b.Txs))))
			for range b.Txs {
				w.Write(vint(0))
			}
			// (index, tx) pairs
			w2 := bytes.Buffer{}
			w2.Write(b.H.Bytes())
			w2.Write(r.Bytes(8))
			w2.Write(vint(0))
			w2.Write(vint(uint64(len(b.Txs))))
			for _, t := range b.Txs {
				w2.Write(vint(0))
				w2.Write(t.Bytes(true))
			}
			pl = w2.Bytes()
		}
	case "getblocktxn":
		h := n.someHash(r)
		var w bytes.Buffer
		w.Write(h[:])
		cnt := r.Range(0, 6)
		w.Write(vint(uint64(cnt)))
		for i := 0; i < cnt; i++ {
			w.Write(vint(uint64(r.Intn(4))))
		}
		pl = w.Bytes()
	case "blocktxn":
		h := n.someHash(r)
		var w bytes.Buffer
		w.Write(h[:])
		cnt := r.Range(0, 3)
		w.Write(vint(uint64(cnt)))
		for i := 0; i < cnt; i++ {
			if t := n.someTx(r); t != nil {
				w.Write(t.Bytes(true))
			}
		}
		pl = w.Bytes()
	case "ping", "pong", "feefilter":
		pl = r.Bytes(8)
	case "sendcmpct":
		pl = append([]byte{byte(r.Intn(2))}, 2, 0, 0, 0, 0, 0, 0, 0)
	case "getmp":
		cnt := r.Range(0, 5)
		pl = vint(uint64(cnt))
		for i := 0; i < cnt; i++ {
			pl = append(pl, r.Bytes(8)...)
		}
	case "xauth", "authack", "getmpdone", "filterload", "wtfisthis":
		pl = r.Bytes(r.Intn(200))
	}
	// mutations
	switch m.Kind {
	case "trunc":
		if len(pl) > 0 {
			pl = pl[:r.Intn(len(pl))]
		}
	case "extend":
		pl = append(pl, r.Bytes(1+r.Intn(40))...)
	case "random":
		pl = r.Bytes([]int{1, 4, 8, 23, 24, 36, 37, 80, 81, 82, 83, 100, 1000}[r.Intn(13)])
	case "empty":
		pl = nil
	case "mutate":
		for k := 0; k < 1+r.Intn(4) && len(pl) > 0; k++ {
			pl[r.Intn(len(pl))] ^= byte(1 << uint(r.Intn(8)))
		}
	case "count":
		// replace the first CompactSize-looking byte after the fixed prefix with another count / encoding
		off := map[string]int{"getblocks": 4, "getheaders": 4, "getblocktxn": 32, "blocktxn": 32, "cmpctblock": 88}[m.Cmd]
		if len(pl) > off {
			var c []byte
			switch r.Intn(5) {
			case 0:
				c = []byte{0xff, 0xff, 0xff, 0xff, 0xff, 0xff, 0xff, 0xff, 0xff}
			case 1:
				c = oddVint(uint64(pl[off]), r.Intn(3))
			case 2:
				c = vint(uint64(pl[off]) + 1 + uint64(r.Intn(5)))
			case 3:
				c = vint(50000)
			default:
				c = []byte{0xfe, 0xff, 0xff, 0xff, 0x7f}
			}
			pl = append(append(append([]byte{}, pl[:off]...), c...), pl[off+1:]...)
		}
	case "count-wrap":
		// ONE entry, announced by a count whose product with the entry size wraps around 2^64 back to one entry's
		// size (2^k+1 entries of 36, 30, 32 ... bytes): a length check done in 64-bit arithmetic passes
		off := map[string]int{"getblocks": 4, "getheaders": 4, "getblocktxn": 32, "blocktxn": 32, "cmpctblock": 88}[m.Cmd]
		one := map[string]func() []byte{
			"inv": func() []byte { return n.invPayload(r, 1)[1:] }, "getdata": func() []byte { return n.invPayload(r, 1)[1:] },
			"notfound": func() []byte { return n.invPayload(r, 1)[1:] }, "addr": func() []byte { return netAddr(r, true) },
			"getmp": func() []byte { return r.Bytes(8) }, "headers": func() []byte { return append(r.Bytes(80), 0) },
		}[m.Cmd]
		cnt := make([]byte, 9)
		cnt[0] = 0xff
		binary.LittleEndian.PutUint64(cnt[1:], uint64(1)<<uint(58+r.Intn(6))+1)
		if one != nil {
			pl = append(cnt, one()...)
		} else if len(pl) > off {
			pl = append(append(append([]byte{}, pl[:off]...), cnt...), pl[off+1:]...)
		}
	case "count-huge":
		// a count of 2^40 (or 2^32-1) where the parser allocates before it looks at the bytes that follow
		off := map[string]int{"getblocks": 4, "getheaders": 4, "getblocktxn": 32, "blocktxn": 32, "cmpctblock": 88, "tx": 4, "block": 80}[m.Cmd]
		if len(pl) > off {
			c := [][]byte{{0xff, 0, 0, 0, 0, 0, 1, 0, 0}, {0xfe, 0xff, 0xff, 0xff, 0xff}, {0xff, 0, 0, 0, 0, 0, 0, 0, 0x40}}[r.Intn(3)]
			cut := off + 1 + r.Intn(len(pl)-off)
			pl = append(append(append([]byte{}, pl[:off]...), c...), pl[off+1:cut]...)
		}
	case "lencut":
		// the payload ends right inside (or right after the first byte of) a multi-byte length field
		if len(pl) > 8 {
			cut := 4 + r.Intn(len(pl)-4)
			pl = append(append([]byte{}, pl[:cut]...), []byte{0xfd, 0xfe, 0xff}[r.Intn(3)])
			if r.Chance(0.3) {
				pl = append(pl, 0x01)
			}
		}
	case "agentlen-huge":
		// version: the user-agent length is a CompactSize of 2^63 and more (negative once converted to int)
		pl = n.versionPayload(r, n.model.Height)
		if len(pl) > 81 {
			tail := append([]byte{}, pl[81:]...)
			pl = append(append(pl[:80:80], [][]byte{{0xff, 0xff, 0xff, 0xff, 0xff, 0xff, 0xff, 0xff, 0xff}, {0xff, 0xff, 0xff, 0xff, 0xff, 0xff, 0xff, 0xff, 0x7f}, {0xff, 0, 0, 0, 0, 0, 0, 0, 0x80}}[r.Intn(3)]...), tail...)
		}
	case "max":
		// the per-command maximum, filled with a claimed count and zeros / noise
		sz := map[string]int{"inv": 9 + 50000*36, "getdata": 9 + 50000*36, "notfound": 9 + 50000*36, "addr": 9 + 1000*30, "headers": 9 + 2000*89, "getblocks": 4 + 9 + 101*32 + 32, "getheaders": 4 + 9 + 101*32 + 32}[m.Cmd]
		if sz == 0 {
			sz = 1024
		}
		if sz > 400000 {
			sz = 400000 // keep quick runs quick; the full size is a thorough-tier matter
		}
		big := make([]byte, sz)
		if r.Chance(0.5) {
			copy(big, r.Bytes(sz))
		}
		copy(big, pl)
		pl = big
	case "short82":
		// the statement's own example: 82 bytes whose user-agent length byte claims more than is there
		pl = n.versionPayload(r, 0)[:80]
		pl = append(pl, 2, 'x')
	case "badagentlen":
		pl = n.versionPayload(r, 0)
		if len(pl) > 81 {
			pl[80] = byte(r.Intn(256))
			pl = pl[:81+r.Intn(len(pl)-81)]
		}
	}
	return pl
}

// ---------------------------------------------------------------- run

func (NetH) Run(t *testing.T, c *hx.Case) *hx.Outcome {
	out := &hx.Outcome{}
	nc := &NetCfg{}
	if err := json.Unmarshal(c.Cfg, nc); err != nil || nc.Peers < 1 {
		out.Inconclusive = "bad cfg"
		return out
	}
	cfg := &nc.Cfg
	var msgs []*NetMsg
	for _, raw := range c.Ops {
		var m NetMsg
		if json.Unmarshal(raw, &m) == nil {
			m.P = m.P % nc.Peers
			msgs = append(msgs, &m)
		}
	}
	td := ensureTemplate(cfg, out)
	root := hx.RunDir("net", c.Seed)
	defer os.RemoveAll(root)
	dir := filepath.Join(root, "node")
	if err := simos.CopyTree(td, dir); err != nil {
		fmt.Fprintln(os.Stderr, "netsim: copy template:", err)
		os.Exit(2)
	}
	os.Remove(filepath.Join(dir, "ok"))
	simos.Reset(dir)
	n := &netRun{nc: nc}
	n.pc = &PoolCfg{Cfg: *cfg}
	n.made = map[[32]byte]*ledger.Tx{}
	n.prop, n.cfg, n.out, n.dir = "C18", cfg, out, dir
	n.status, n.waiting, n.isPrefix = map[[32]byte]int{}, map[[32]byte][]int{}, map[[32]byte]bool{}
	var tip *ledger.Node
	n.l, tip = newLedger(cfg)
	n.model = tip
	for p := tip; p != nil; p = p.Parent {
		n.isPrefix[p.Hash] = true
		if p.Blk != nil && len(n.known) < 40 {
			n.known = append(n.known, p.Hash)
			n.known = append(n.known, p.Blk.Txs[0].ID())
		}
	}
	n.m = &ledger.Miner{L: n.l, W: ledger.NewWallet(walletSeed, walletKeys), R: hx.NewRng(1)}
	registerPrefixScripts(n.m.W, false)
	if usesKit(c.Ops) {
		if n.kitBlk = kitBlock(n.l, tip, n.m); n.kitBlk != nil {
			n.kit = ensureKit(n.kitBlk)
			n.l.Add(n.kitBlk, 1<<40)
		}
	}
	viol := func(class, format string, a ...any) {
		out.Violate("C18", class, format, a...)
		n.bad = true
	}

	scfg := simrt.Config{Seed: cfg.SchedSeed, YieldP: cfg.YieldP, TimerP: cfg.TimerP, MaxConsec: cfg.MaxConsec, StepBudget: 80_000_000, PCT: cfg.PCT, PCTSteps: cfg.PCTSteps, ChildFirstP: cfg.ChildFirstP}
	now0 := int64(tip.Time) + 600
	// the catch-all recover in OneConnection.Run reports an escaped panic on standard output: keep it
	realStdout := os.Stdout
	capf, _ := os.CreateTemp(root, "stdout")
	if capf != nil {
		os.Stdout = capf
	}
	res := simrt.Run(scfg, func() {
		simrt.Sleep(time.Unix(now0, 0).Sub(time.Now()))
		common.CFG.Testnet, common.Testnet = false, false
		common.Magic = netMagic
		common.CFG.Memory.GCPercTrshold = 100
		common.CFG.TXPool.Enabled, common.CFG.TXPool.AllowMemInputs = true, true
		common.CFG.TXPool.MaxTxWeight, common.CFG.TXPool.MaxSizeMB, common.CFG.TXPool.ExpireInDays = 400000, 10, 14
		common.CFG.TXPool.MaxRejectMB, common.CFG.TXPool.MaxNoUtxoMB, common.CFG.TXPool.RejectRecCnt = 1, 0.5, 200
		common.CFG.TXRoute.Enabled, common.CFG.TXRoute.MaxTxWeight = true, 400000
		common.CFG.WebUI.AllowedIP = "127.0.0.1"
		common.CFG.Net.MaxInCons, common.CFG.Net.MaxOutCons = 20, 10
		common.CFG.Net.MaxBlockAtOnce = []uint32{3, 3, 2, 1}[cfg.SchedSeed%4] // the client's default (InitConfig) is 3; an operator may lower it
		common.CFG.Memory.MaxCachedBlks, common.CFG.Memory.SyncCacheSize = 200, 500
		common.CFG.TXPool.FeePerByte, common.CFG.TXRoute.FeePerByte = 0.001, 0.1
		common.CFG.Stat.HashrateHrs, common.CFG.Stat.MiningHrs, common.CFG.Stat.FeesBlks = 12, 24, 24
		common.CFG.DropPeers.ImmunityMinutes = 15
		common.CFG.Net.ListenTCP = false
		common.CFG.DropPeers.PingPeriodSec = 60
		common.CFG.DropPeers.DropEachMinutes = 5
		common.CFG.DropPeers.BlckExpireHours = 2
		common.GocoinHomeDir = dir + "/"
		common.Reset()
		n.boot()
		n.n.Ch.CB.BlockMinedCB = mainlib.BlockMinedCB // client/main.go: blockMined (txpool.BlockMined + fee statistics)
		n.n.Ch.CB.BlockUndoneCB = mainlib.BlockUndoneCB
		common.BlockChain = n.n.Ch
		common.Last.Mutex.Lock()
		common.Last.Block = n.n.Ch.LastBlock()
		common.Last.Mutex.Unlock()
		common.UpdateScriptFlags(0)
		common.CFG.Stat.BSizeBlks = 1008
		common.RecalcAverageBlockSize() // client/main.go does this before the network starts
		common.BlockChainSynchronized.Store(true)
		txpool.InitMempool()
		mainlib.ResetForSim()
		// channels created at package init are not durable for synctest: re-make them inside the bubble
		network.NetBlocks = make(chan *network.BlockRcvd, 512)
		network.NetTxs = make(chan *txpool.TxRcvd, 2048)
		txpool.GetMPInProgressTicket = make(chan bool, 1)
		network.MutexRcv.Lock()
		network.LastCommitedHeader = n.n.Ch.LastBlock()
		network.MutexRcv.Unlock()
		peersdb.PeerDB, _ = qdb.NewDB(dir+"/peers3", true)

		// the main loop of the client, reduced to what the handlers hand over to it
		mainDone := make(chan struct{}, 1)
		ticks := 0
		simrt.Go(func() {
			defer func() { mainDone <- struct{}{} }()
			for !n.stop {
				tm := time.NewTimer(50 * time.Millisecond)
				simrt.PreSelect()
				select {
				case nb := <-network.NetBlocks:
					simrt.Woken()
					n.mainBlock(nb)
					if mainlib.RetryFlag() {
						// the client's main loop: "if retryCachedBlocks { retryCachedBlocks = retry_cached_blocks() }"
						mainlib.RetryCachedBlocks()
					}
				case tx := <-network.NetTxs:
					simrt.Woken()
					txpool.HandleNetTx(tx)
				case <-tm.C:
					simrt.Woken()
					ticks++
				}
				tm.Stop()
			}
		})

		// peers
		lastRead := make([]int, nc.Peers)
		for p := 0; p < nc.Peers; p++ {
			p := p
			ad, err := peersdb.NewIncommingConnection(fmt.Sprintf("11.%d.%d.%d:8333", 1+p, 2+p, 3+p), true)
			if err != nil {
				viol("harness", "cannot make peer address: %v", err)
				return
			}
			conn := simnet.New(ad.Ip())
			conn.FragMax = []int{0, 0, 1, 3, 24, 100, 4000}[simrt.Intn(7)]
			oc := network.NewConnection(ad)
			oc.X.ConnectedAt = time.Now()
			oc.X.Incomming = true
			oc.Conn = conn
			network.Mutex_net.Lock()
			oc.VerifAddToList()
			network.InConsActive++
			network.Mutex_net.Unlock()
			n.conns = append(n.conns, conn)
			n.ocs = append(n.ocs, oc)
			n.done = append(n.done, false)
			var g *simrt.G
			conn.OnRead = func() {
				// a handler has returned: the connection goroutine must not hold any lock now
				if g == nil {
					g = simrt.Cur()
				}
				if g != nil && len(g.Held) > 0 && !n.bad {
					viol("handler.lock-held", "peer %d: the connection goroutine re-enters Read() holding %d lock(s): the handler of the previous message returned with a lock still held", p, len(g.Held))
				}
				if g != nil {
					// work done by this goroutine itself since its previous Read (does not depend on the scheduling
					// mode or on what other goroutines did in between)
					if d := g.Pts - lastRead[p]; d > n.maxStep {
						n.maxStep = d
					}
					lastRead[p] = g.Pts
				}
			}
			simrt.Go(func() {
				oc.Run()
				n.done[p] = true
				g := simrt.Cur()
				if !conn.Closed && !n.bad {
					viol("handler.panic", "peer %d: OneConnection.Run() returned without closing its connection: a panic escaped a message handler (the catch-all recover in Run only logs) or a handler left Run() by an early return", p)
				} else if g != nil && len(g.Held) > 0 && !n.bad {
					viol("handler.lock-held", "peer %d: Run() ended holding %d lock(s)", p, len(g.Held))
				}
				network.Mutex_net.Lock()
				oc.VerifDelFromList()
				network.InConsActive--
				network.Mutex_net.Unlock()
			})
		}
		// feed the messages
		for _, m := range msgs {
			if n.bad {
				break
			}
			r := hx.NewRng(m.Seed)
			n.syncModel()
			if m.Cmd == "lib" {
				n.libCall(m, r)
				continue
			}
			pl := n.payload(m, r)
			raw := wireMsg(m.Cmd, pl, m.HdrMut, r)
			conn := n.conns[m.P]
			out.Probe("msg_"+m.Kind, 1)
			if m.Reset {
				cut := r.Intn(len(raw) + 1)
				conn.Push(time.Duration(m.DelayMs)*time.Millisecond, raw[:cut], simnet.ErrReset)
				out.Fault("connection_reset_mid_message", 1)
			} else if r.Chance(0.2) && len(raw) > 2 {
				// the message arrives in two bursts with a pause that may outlast the 10 ms read deadline
				cut := 1 + r.Intn(len(raw)-1)
				conn.Push(time.Duration(m.DelayMs)*time.Millisecond, raw[:cut], nil)
				conn.Push(time.Duration([]int{1, 9, 10, 11, 50}[r.Intn(5)])*time.Millisecond, raw[cut:], nil)
				out.Fault("burst_split_with_pause", 1)
			} else {
				conn.Push(time.Duration(m.DelayMs)*time.Millisecond, raw, nil)
			}
			if r.Chance(0.3) {
				simrt.Sleep(time.Duration(r.Intn(30)) * time.Millisecond)
			}
		}
		// (checked after the hang-up below) no reply to a getblocktxn is bigger than a block
		checkReplies := func() {
			maxBlock := 0
			for _, ln := range n.l.Nodes {
				if ln.Blk != nil {
					if k := len(ln.Blk.Bytes()); k > maxBlock {
						maxBlock = k
					}
				}
			}
			for p, cn := range n.conns {
				off := 0
				for _, m := range sentMessages(cn.Sent, &off) {
					if string(m[0]) == "blocktxn" && len(m[1]) > maxBlock+100 && !n.bad {
						viol("handler.amplification", "peer %d got a blocktxn reply of %d bytes; the biggest block the node has is %d bytes: a getblocktxn made the node send the same transactions over and over", p, len(m[1]), maxBlock)
					}
				}
			}
		}
		defer checkReplies()
		defer func() {
			txpool.TxMutex.Lock()
			for _, t2s := range txpool.TransactionsToSend {
				n.out.Probe("pooled_at_the_end", 1)
				if t2s.Blocked != 0 {
					n.out.Probe("pooled_but_not_relayed_at_the_end", 1)
				}
			}
			txpool.TxMutex.Unlock()
			common.CounterMutex.Lock()
			for _, k := range []string{"TxRouteLowFee", "TxRouteDisabled", "TxRouteNotMined", "TxRouteTooBig", "GetdataTxSw"} {
				if v := common.Counter[k]; v > 0 {
					n.out.Probe("node_counter_"+k, int64(v))
				}
			}
			common.CounterMutex.Unlock()
		}()
		// let everything be consumed, then hang up
		for i := 0; i < 400 && !n.bad; i++ {
			pending := 0
			for p, cn := range n.conns {
				if !n.done[p] {
					pending += cn.Pending()
				}
			}
			if pending == 0 {
				break
			}
			simrt.Sleep(25 * time.Millisecond)
		}
		simrt.Sleep(200 * time.Millisecond)
		for _, cn := range n.conns {
			cn.Abort(simnet.ErrReset) // (a peer that dribbles 400 kB one byte at a time is cut off here, not waited for)
		}
		for i := 0; i < 400; i++ {
			all := true
			for _, d := range n.done {
				all = all && d
			}
			if all {
				break
			}
			simrt.Sleep(25 * time.Millisecond)
		}
		for p, d := range n.done {
			if !d && !n.bad {
				viol("handler.stuck", "peer %d: the connection goroutine did not end within 10 simulated seconds after the peer hung up", p)
			}
			for _, cmd := range []string{"getblocktxn", "blocktxn", "cmpctblock", "getdata", "getheaders", "headers", "inv", "reject", "sendcmpct", "tx\x00", "block\x00"} {
				pad := append([]byte(cmd), make([]byte, 12)...)[:12]
				if c := bytes.Count(n.conns[p].Sent, append(netMagic[:], pad...)); c > 0 {
					out.Probe("node_sent:"+strings.TrimRight(cmd, "\x00"), int64(c))
				}
			}
			out.Fault("fragmented_reads", int64(n.conns[p].Fragments))
			out.Fault("read_deadline_expired", int64(n.conns[p].TimedOut))
		}
		// bounded liveness once faults stop: the main loop ticks, and a fresh well-behaved peer gets served
		if !n.bad {
			t0 := ticks
			simrt.Sleep(300 * time.Millisecond)
			if ticks == t0 {
				viol("liveness.main-loop", "the main loop made no progress for 300 simulated ms after all peers were gone")
			}
		}
		if !n.bad {
			ad, _ := peersdb.NewIncommingConnection("12.34.56.78:8333", true)
			if ad != nil {
				conn := simnet.New(ad.Ip())
				oc := network.NewConnection(ad)
				oc.X.ConnectedAt = time.Now()
				oc.X.Incomming = true
				oc.Conn = conn
				network.Mutex_net.Lock()
				oc.VerifAddToList()
				network.Mutex_net.Unlock()
				fin := false
				simrt.Go(func() { oc.Run(); fin = true })
				r := hx.NewRng(99)
				nonce := r.Bytes(8)
				conn.Push(0, wireMsg("version", n.versionPayload(r, n.model.Height+3), "", r), nil)
				conn.Push(time.Millisecond, wireMsg("verack", nil, "", r), nil)
				conn.Push(time.Millisecond, wireMsg("ping", nonce, "", r), nil)
				ok := false
				for i := 0; i < 200 && !ok; i++ {
					simrt.Sleep(25 * time.Millisecond)
					ok = bytes.Contains(conn.Sent, append([]byte("pong\x00\x00\x00\x00\x00\x00\x00\x00\x08\x00\x00\x00"), nil...)) && bytes.Contains(conn.Sent, nonce)
				}
				if !ok {
					viol("liveness.fresh-peer", "after the faulty peers were gone a fresh well-behaved peer sent version + ping and got no pong within 5 simulated seconds (node wedged); bytes sent to it: %d", len(conn.Sent))
				} else {
					out.Probe("fresh_peer_served", 1)
					n.honestRelay(conn, r, viol)
				}
				conn.Push(0, nil, simnet.ErrReset)
				for i := 0; i < 400 && !fin; i++ {
					simrt.Sleep(25 * time.Millisecond)
				}
			}
		}
		n.stop = true
		simrt.Recv(mainDone)
		if !n.bad {
			peersdb.PeerDB.Close()
			n.n.Close()
		}
	})
	os.Stdout = realStdout
	if capf != nil {
		capf.Close()
		if rep, err := os.ReadFile(capf.Name()); err == nil {
			if os.Getenv("VSIM_DEBUG") != "" {
				os.Stderr.Write(rep)
			}
			if where, what := panicSite(string(rep)); where != "" {
				for i := range out.Violations {
					if out.Violations[i].Class == "handler.panic" {
						out.Violations[i].Class = "handler.panic:" + where
						out.Violations[i].Msg += " | reported by Run(): " + what + " in " + where
					}
				}
			}
		}
	}
	out.Evals = 1
	var ol []string
	for i, m := range msgs {
		if i >= 80 {
			ol = append(ol, "...")
			break
		}
		s := fmt.Sprintf("p%d %s/%s", m.P, m.Cmd, m.Kind)
		if m.HdrMut != "" {
			s += " hdr:" + m.HdrMut
		}
		if m.Reset {
			s += " RESET"
		}
		ol = append(ol, s)
	}
	out.Sample = map[string]any{"peers": nc.Peers, "messages": ol, "yield_p": cfg.YieldP, "max_steps_per_message": n.maxStep}
	{
		b := 0
		for v := n.maxStep; v > 1; v >>= 1 {
			b++
		}
		out.Probe(fmt.Sprintf("max_points_between_reads<2^%02d", b+1), 1)
	}
	if !out.Absorb("C18", "history", &res) {
		return out
	}
	if n.maxStep > 2_000_000 {
		out.Violate("C18", "handler.unbounded", "between two reads a connection goroutine passed %d synchronisation points (lock, channel, timer or file operations): a handler loops without a bound that the message size explains", n.maxStep)
	}
	out.StateHash = fmt.Sprintf("%d/%d", len(msgs), n.maxStep/1000)
	return out
}

// honestRelay: bounded liveness once the faults have stopped.  The fresh peer offers one valid block on top of the
// node's tip - a block an earlier (now gone) peer's conversation was about, if there is one that never got connected,
// else a new one - the way a well-behaved peer does: header announced, the node's getheaders answered, the block sent
// when the node asks for it.  The node must have connected it within 30 simulated seconds.
func (n *netRun) honestRelay(conn *simnet.Conn, r *hx.Rng, viol func(string, string, ...any)) {
	n.syncModel()
	tipHash, _ := n.n.Tip()
	if n.model == nil || n.model.Hash != tipHash {
		return // (the model lost track of the node's tip: nothing to offer on top of it)
	}
	var x *plannedBlock
	for i := range n.planned {
		pb := &n.planned[i]
		if ln := n.l.Nodes[pb.hash]; pb.prev == tipHash && ln != nil && ln.Valid() && ln.Blk != nil && bytes.Equal(ln.Blk.H.Bytes(), pb.hdr) {
			x = pb
			n.out.Probe("liveness_block_from_an_earlier_conversation", 1)
			break
		}
	}
	if x == nil {
		bl := n.newBlocksN(r, 1, r.Intn(3))
		if len(bl) == 0 {
			return
		}
		x = &plannedBlock{hash: bl[0].Hash(), prev: bl[0].H.Prev, raw: bl[0].Bytes(), hdr: bl[0].H.Bytes(), height: n.model.Height + 1}
		n.out.Probe("liveness_fresh_block", 1)
	}
	off := 0
	sentMessages(conn.Sent, &off) // what was said so far
	announce := append(append(vint(1), x.hdr...), 0)
	conn.Push(0, wireMsg("headers", announce, "", r), nil)
	asked, sentBlock := false, false
	for i := 0; i < 1200; i++ {
		simrt.Sleep(25 * time.Millisecond)
		if h, _ := n.n.Tip(); h == x.hash {
			n.out.Probe("liveness_block_connected", 1)
			return
		}
		for _, m := range sentMessages(conn.Sent, &off) {
			switch string(m[0]) {
			case "getheaders":
				conn.Push(0, wireMsg("headers", announce, "", r), nil)
			case "getdata":
				if bytes.Contains(m[1], x.hash[:]) {
					asked = true
					if !sentBlock {
						conn.Push(0, wireMsg("block", x.raw, "", r), nil)
						sentBlock = true
					}
				}
			case "ping":
				conn.Push(0, wireMsg("pong", m[1], "", r), nil)
			}
		}
	}
	if n.bad {
		return
	}
	h, hh := n.n.Tip()
	viol("liveness.block-not-connected", "after the faulty peers were gone a fresh well-behaved peer announced the valid block %s (height %d, child of the node's tip) by its header, answered the node's getheaders and would have sent the block on request: 30 simulated seconds later the node's tip is still %s (height %d); the node asked for the block: %v, the block was sent: %v", hs(x.hash), x.height, hs(h), hh, asked, sentBlock)
}

// mainBlock re-states client/main.go:HandleNetBlock + LocalAcceptBlock for a block handed over by a handler.
func (n *netRun) mainBlock(nb *network.BlockRcvd) {
	if nb == nil || nb.BlockTreeNode == nil {
		return
	}
	// the client's own handler (client/main.go: HandleNetBlock -> LocalAcceptBlock -> retry_cached_blocks)
	before := n.n.Ch.LastBlock()
	mainlib.HandleNetBlock(nb)
	if after := n.n.Ch.LastBlock(); after != before {
		n.out.Probe("block_from_peer_connected", 1)
		n.noteConnected(after.BlockHash.Hash)
		// what the node has stored under that hash are the bytes of the block with that hash (judged for the blocks
		// whose bytes were recorded when a conversation planned them, before it may have spoilt its own copy)
		for k := range n.planned {
			pb := &n.planned[k]
			if pb.hash != after.BlockHash.Hash || n.bad {
				continue
			}
			if d, _, e := n.n.Ch.Blocks.BlockGet(after.BlockHash); e == nil && !bytes.Equal(d, pb.raw) {
				n.out.Violate("C18", "net.block-body-not-the-blocks", "the node connected block %s (height %d) received from a peer, but the %d bytes it stored are not those of the block with this hash (%d bytes): a body was accepted that does not belong to the header", hs(pb.hash), pb.height, len(d), len(pb.raw))
				n.bad = true
			}
		}
	}
}
