// Package chainsim: deterministic simulation of lib/chain + lib/utxo (+ balance
// index) against the reference ledger.  Serves C04, C05, C06, C07, C11, C17 and
// the two-party clause of C02, selected by VSIM_PROP.
package chainsim

import (
	"bytes"
	"encoding/binary"
	"encoding/hex"
	"encoding/json"
	"fmt"
	"os"
	"path/filepath"
	"sort"
	"strings"
	"testing"
	"time"

	"github.com/piotrnar/gocoin/client/common"
	"github.com/piotrnar/gocoin/client/wallet"
	"github.com/piotrnar/gocoin/lib/btc"
	"github.com/piotrnar/gocoin/lib/chain"
	"github.com/piotrnar/gocoin/lib/utxo"

	"verif/harness/hx"
	"verif/harness/ledger"
	"verif/sim/simos"
	"verif/sim/simrt"
	"verif/sim/simsync"
)

const (
	prefixLen     = 115
	longPrefixLen = 4026 // "long" variants: the prefix ends six blocks before the second retarget boundary (height 4032)
	genesisTime = 1609459200 // 2021-01-01
	walletSeed  = 7
	walletKeys  = 12
)

var genesisHash = func() (h [32]byte) {
	copy(h[:], []byte("verif-sim-genesis-block-hash-001"))
	h[0] = 0x11 // not 0x43: main-net rule set
	return
}()

var genesisHashTestnet = func() (h [32]byte) {
	copy(h[:], []byte("verif-sim-genesis-block-hash-001"))
	h[0] = 0x43 // test-net rule set (20-minute min-difficulty rule)
	h[1] = 0x01
	return
}()

// testnet4-like: NewChainExt itself then sets every activation height to 1, so the
// library's own recovery tail (DoNotRescan=false) can run with the right script flags.
var genesisHashTestnet4 = func() (h [32]byte) {
	copy(h[:], []byte("verif-sim-genesis-block-hash-001"))
	h[0] = 0x43
	h[1] = 0xf0
	return
}()

type Cfg struct {
	P              ledger.Params   `json:"params"`
	Testnet        bool            `json:"testnet"`
	Testnet4       bool            `json:"testnet4"` // test-net-4-like genesis: all rules active from height 1 inside NewChainExt
	Long           bool            `json:"long,omitempty"` // 4026-block prefix: the history crosses the retarget boundary at height 4032
	RealAlloc      bool            `json:"real_alloc,omitempty"` // UTXO records in lib/others/memory instead of the Go heap
	TrustChecker   bool            `json:"trust_checker,omitempty"` // chain.TrustedTxChecker installed: about half of the (really) valid transactions count as verified by the pool
	FreshDir       bool            `json:"fresh_dir,omitempty"` // the node has block files but has never written a snapshot
	BigSet         bool            `json:"big_set,omitempty"` // every prefix block leaves ~66 kB of unspent scripts: a snapshot of more than a hundred 64 KiB chunks
	PadLimit       bool            `json:"pad_limit,omitempty"` // proof-of-work limit 0x20008000: a compact form whose mantissa starts with a zero byte (as the main net's 0x1d00ffff), the target itself one byte shorter than the exponent says; 512 hashes per block
	Young          int             `json:"young,omitempty"`      // >0: a chain of only this many blocks (fewer than 11 ancestors for the median time, nothing mature)
	Blocks         []*ledger.Block `json:"blocks"`
	Now0           int64           `json:"now0"`
	CompressUTXO   bool            `json:"compress_utxo"`
	CompressBlocks bool            `json:"compress_blocks"`
	CacheBlocks    int             `json:"cache_blocks"`
	MaxFileKB      int             `json:"max_file_kb"`
	SaveTargetMs   int             `json:"save_target_ms"`
	SkipSave       uint32          `json:"skip_save"`
	ClientRecovery bool            `json:"client_recovery"`
	YieldP         float64         `json:"yield_p"`
	TimerP         float64         `json:"timer_p"`
	MaxConsec      int             `json:"max_consec"`
	SchedSeed      uint64          `json:"sched_seed"`
	PCT            int             `json:"pct"`       // >0: priority scheduling with pct-1 priority change points
	PCTSteps       int             `json:"pct_steps"`
	ChildFirstP    float64         `json:"child_first_p,omitempty"` // newly started goroutines run first with this probability
	CrashPoints    int             `json:"crash_points"` // C07: 0 = default subset, -1 = every effect
	WalletMinVal   uint64          `json:"wallet_min_val"` // C17
	WalletUseMap   uint32          `json:"wallet_use_map_cnt"`
}

type Op struct {
	Op string `json:"op"` // deliver idle tick save reopen
	B  int    `json:"b,omitempty"`
	Ms int    `json:"ms,omitempty"`
	ID int    `json:"id"`
}

var generatorRejects int

type H struct{}

func (H) Name() string { return "chainsim" }

func (c *Cfg) genesis() [32]byte {
	if c.Testnet4 {
		return genesisHashTestnet4
	}
	if c.Testnet {
		return genesisHashTestnet
	}
	return genesisHash
}

// plen is the length of the fixed prefix the case's blocks are built on.
func (c *Cfg) plen() int {
	if c.Long {
		return longPrefixLen
	}
	if c.Young > 0 {
		return c.Young
	}
	return prefixLen
}

func (c *Cfg) net() int {
	if c.PadLimit {
		return 6
	}
	if c.BigSet {
		return 7
	}
	if c.Young > 0 {
		n := 100 + c.Young
		if c.Testnet {
			n += 50
		}
		return n
	}
	if c.Long {
		if c.Testnet {
			return 4
		}
		return 3
	}
	if c.Testnet4 {
		return 2
	}
	if c.Testnet {
		return 1
	}
	return 0
}

// ---------------------------------------------------------------- prefix (same for every case)

var prefixCache = map[int][]*ledger.Block{}

// baseP is baseParams with the case's proof-of-work limit.
func (c *Cfg) baseP() ledger.Params {
	p := baseParams(c.Testnet)
	if c.PadLimit {
		p.PowLimitBits = 0x20008000
	}
	return p
}

func baseParams(testnet bool) ledger.Params {
	return ledger.Params{PowLimitBits: 0x207fffff, GenesisTime: genesisTime, BIP34Height: 1, BIP65Height: 1, BIP66Height: 1,
		CSVHeight: 1, SegwitHeight: 1, TaprootHeight: 1, Testnet: testnet}
}

// prefix builds the universal coinbase-only chain of prefixLen blocks.
func prefix(cfg *Cfg) []*ledger.Block {
	net := cfg.net()
	if p, ok := prefixCache[net]; ok {
		return p
	}
	g := cfg.genesis()
	l := ledger.New(cfg.baseP(), g)
	m := &ledger.Miner{L: l, W: ledger.NewWallet(walletSeed, walletKeys), R: hx.NewRng(0xC0FFEE)}
	var res []*ledger.Block
	cur := l.Genesis
	if cfg.Long {
		// First period: 300 s apart, so that the retarget at height 2016 halves the target (the target is then
		// below the limit and can move both ways).  Block 2016 is stamped 7000 s after its parent and the rest
		// of the second period follows two seconds apart from the parent's time again (legal: above the median
		// of the previous eleven), so the last prefix block is still stamped ~3000 s *before* block 2016: the
		// timespan measured at height 4032 is negative, below a quarter, inside, or above four times two weeks
		// depending only on the time stamps the case chooses for its own blocks.
		base := uint32(genesisTime)
		for i := 1; i <= longPrefixLen; i++ {
			var t uint32
			switch {
			case i < 2016:
				t = base + uint32(i)*300
			case i == 2016:
				t = base + 2015*300 + 7000
			default:
				t = base + 2015*300 + 2 + uint32(i-2017)*2
			}
			b, _ := m.Build(cur, ledger.BlockOpts{NTx: 0, Time: t})
			if b.H.Time != t || b.H.Bits != l.ExpectedBits(cur, t) {
				panic("long prefix: time stamp plan not realisable")
			}
			n := l.AddTrusted(b, false)
			if n == nil {
				panic("long prefix block not addable")
			}
			res = append(res, b)
			cur = n
		}
		prefixCache[net] = res
		return res
	}
	for i := 0; i < cfg.plen(); i++ {
		o := ledger.BlockOpts{NTx: 0}
		if cfg.BigSet {
			o.Fat, o.FatN = 9500, 6
		}
		b, _ := m.Build(cur, o)
		n := l.Add(b, 1<<40)
		if n == nil || !n.Valid() {
			panic("prefix block invalid: " + n.Clause)
		}
		res = append(res, b)
		cur = n
	}
	prefixCache[net] = res
	return res
}

// newLedger returns a ledger holding the prefix under the case's parameters.
func newLedger(cfg *Cfg) (*ledger.Ledger, *ledger.Node) {
	l := ledger.New(cfg.P, cfg.genesis())
	cur := l.Genesis
	pf := prefix(cfg)
	for i, b := range pf {
		var n *ledger.Node
		if cfg.Long {
			// validated once (by the node that builds the template directory, and header rules by prefix());
			// only the last blocks keep an unspent map of their own
			n = l.AddTrusted(b, i >= len(pf)-12)
		} else {
			n = l.Add(b, 1<<40)
		}
		if n == nil || !n.Valid() {
			panic("prefix invalid under case parameters: " + n.Clause)
		}
		cur = n
	}
	return l, cur
}

// ---------------------------------------------------------------- generation

func (H) Gen(prop string, seed uint64, tier string) *hx.Case {
	r := hx.NewRng(seed)
	cfg := &Cfg{Testnet: r.Chance(0.3), CompressUTXO: r.Chance(0.4), CompressBlocks: r.Chance(0.4), CacheBlocks: r.Range(1, 20),
		SaveTargetMs: []int{0, 50, 5000}[r.Intn(3)], SkipSave: uint32(r.Intn(4)), ClientRecovery: r.Chance(0.5),
		MaxConsec: []int{50, 500, 5000}[r.Intn(3)], SchedSeed: r.U64()}
	cfg.P = baseParams(cfg.Testnet)
	if prop == "C11" && r.Chance(0.1) && !cfg.Testnet {
		cfg.BigSet = true // the snapshot writer's queue of chunks can fill up
	} else if (prop == "C05" && r.Chance(0.12) || prop == "C06" && r.Chance(0.04)) && !cfg.Testnet {
		cfg.PadLimit = true // hashes one byte shorter than the compact exponent says exist above and below the target
		cfg.P = cfg.baseP()
	} else if prop == "C05" && r.Chance(0.1) {
		cfg.Young = r.Range(1, 9) // a chain younger than eleven blocks (every rule active from height 1)
	} else if (prop == "C05" || prop == "C06") && r.Chance(0.25) || prop == "C07" && r.Chance(0.08) {
		cfg.Long = true // across the retarget boundary at height 4032 (every rule active from height 1)
	} else if cfg.Testnet && r.Chance(0.6) {
		cfg.Testnet4 = true // keeps every rule active from height 1
	} else if r.Chance(0.5) {
		// activation heights inside the explored window
		h := func() uint32 { return uint32(prefixLen + 1 + r.Intn(12)) }
		cfg.P.BIP34Height, cfg.P.BIP66Height, cfg.P.BIP65Height = h(), h(), h()
		cfg.P.CSVHeight, cfg.P.SegwitHeight = h(), h()
		cfg.P.TaprootHeight = cfg.P.SegwitHeight + uint32(r.Intn(4))
	}
	if r.Chance(0.5) {
		cfg.MaxFileKB = []int{4, 16, 64}[r.Intn(3)]
	}
	cfg.YieldP = []float64{0, 0.02, 0.1, 0.3}[r.Intn(4)]
	if r.Chance(0.3) {
		cfg.TimerP = 0.05
	}
	if prop == "C20" || ((prop == "C06" || prop == "C11" || prop == "C17") && r.Chance(0.3)) || (prop == "C07" && r.Chance(0.1)) {
		cfg.RealAlloc = true
	}
	if r.Chance(0.3) {
		cfg.ChildFirstP = []float64{0.1, 0.3, 0.6, 1}[r.Intn(4)]
	}
	if r.Chance(0.25) || cfg.BigSet && r.Chance(0.6) {
		// priority scheduling: a goroutine of low priority (say, the file writer of a snapshot) does not run until
		// everything above it is blocked
		cfg.PCT, cfg.PCTSteps = r.Range(1, 4), []int{300, 3000, 30000, 300000}[r.Intn(4)]
	}
	if (prop == "C04" || prop == "C02" || prop == "C06" || prop == "C11") && r.Chance(0.3) {
		cfg.TrustChecker = true
	}
	if prop == "C17" {
		cfg.WalletMinVal = []uint64{0, 1000, 500000000, 1500000000, 2500000000}[r.Intn(5)]
		cfg.WalletUseMap = uint32(r.Range(2, 6))
	}
	if prop == "C07" && r.Chance(0.025) {
		cfg.FreshDir = true
		cfg.ClientRecovery = false
	}
	if prop == "C07" {
		cfg.CrashPoints = 14
		if tier == "thorough" {
			cfg.CrashPoints = -1
		}
		cfg.SkipSave = uint32(r.Intn(2))
	}
	l, tip := newLedger(cfg)
	cfg.Now0 = int64(tip.Time) + int64(r.Range(0, 3000))
	gap := 0
	if cfg.Long {
		// the node's clock (and with it the time stamps of the case's blocks) is ahead of the prefix by nothing,
		// by less than a quarter of two weeks, by something in between, or by more than four times two weeks
		const twoWeeks = 14 * 24 * 3600
		switch r.Pick(25, 15, 35, 25) {
		case 1:
			gap = r.Range(1, twoWeeks/4)
		case 2:
			gap = r.Range(twoWeeks/4-4000, twoWeeks*4+4000)
		case 3:
			gap = r.Range(twoWeeks*4-4000, twoWeeks*5)
		}
		cfg.Now0 += int64(gap)
	}
	m := &ledger.Miner{L: l, W: ledger.NewWallet(walletSeed, walletKeys), R: r.Fork()}
	m.ZeroValueOutputs = prop == "C17" || (prop == "C06" && r.Chance(0.3))
	// register the prefix scripts with the wallet (same wallet seed => same scripts; walk the outputs)
	registerPrefixScripts(m.W, cfg.Testnet)

	nblocks := r.Range(4, 36)
	if r.Chance(0.25) {
		nblocks = r.Range(2, 8)
	}
	if cfg.Long {
		nblocks = r.Range(8, 26)
	}
	fanout := prop == "C11" || (prop == "C17" && r.Chance(0.3))
	if prop == "C11" {
		nblocks = r.Range(6, 14)
		cfg.YieldP = []float64{0.05, 0.2, 0.5}[r.Intn(3)]
		cfg.TimerP = []float64{0, 0.05, 0.2}[r.Intn(3)]
		cfg.SkipSave = 0
		cfg.SaveTargetMs = []int{0, 20, 50, 5000}[r.Intn(4)]
	}
	// bulky outputs: the unspent set grows beyond the 64 KiB write buffer of the snapshot writer within a few
	// blocks, so that "in the middle of streaming the snapshot" is a crash / abort / race point that exists
	fat := (prop == "C07" || prop == "C11") && r.Chance(0.35)
	violP := 0.0
	var viols []string
	var c05 []string
	c05p := 0.85
	switch prop {
	case "C02":
		violP, viols = 0.3, []string{"bad-sig", "bad-sig", "tap-undef-hashtype", "tap-single-oor"}
	case "C04":
		violP, viols = 0.4, append(append([]string{}, ledger.C04Violations...), ledger.C04Boundary...)
	case "C05":
		violP, c05 = 0.4, ledger.C05Violations
		viols = []string{"bad-sig", "overspend"}
	case "C11":
		// also blocks whose parsing stops half way, after the hashing workers of the first packs have been started
		violP, c05p, c05 = 0.2, 0.4, []string{"tail-cut", "tail-cut", "witness-superfluous"}
		viols = []string{"bad-sig", "spent-input", "immature", "overspend", "double-in-block", "later-output", "missing-input", "own-coinbase", "bad-sig", "spent-input"}
	case "C06", "C07", "C17", "C20":
		violP, viols = 0.12, []string{"bad-sig", "spent-input", "immature", "overspend", "double-in-block", "later-output", "missing-input", "own-coinbase", "bad-sig", "spent-input"}
	}
	best := tip
	hugeDone := false
	var retry []int
	var made []*ledger.Node
	now := cfg.Now0
	for i := 0; i < nblocks; i++ {
		// choose the parent
		parent := best
		switch r.Pick(60, 22, 12, 6) {
		case 1: // fork below the best tip
			d := uint32(r.Range(1, 6))
			if a := best.Ancestor(best.Height - d); a != nil && int(a.Height) >= cfg.plen()-1 {
				parent = a
			}
		case 2: // extend some other node
			if len(made) > 0 {
				parent = made[r.Intn(len(made))]
			}
		case 3: // child of an invalid block
			for _, n := range made {
				if !n.Valid() && r.Chance(0.5) {
					parent = n
				}
			}
		}
		if !parent.Valid() {
			// a child of an invalid node: any well-formed block will do; build it on the nearest valid ancestor's state
			anc := parent
			for !anc.Valid() {
				anc = anc.Parent
			}
			b, ok := m.Build(parent, ledger.BlockOpts{NTx: r.Intn(3), ViewFrom: anc})
			if !ok {
				continue
			}
			if n := l.Add(b, 1<<40); n != nil {
				cfg.Blocks = append(cfg.Blocks, b)
				made = append(made, n)
			}
			continue
		}
		o := ledger.BlockOpts{NTx: r.Pick(15, 25, 25, 15, 10, 5, 5), InBlockChain: r.Chance(0.4)}
		if fat && (prop != "C07" || r.Chance(0.6)) {
			o.Fat = r.Range(6000, 9500) // (C07: big and small blocks mixed, so that a re-fed block can cover the bytes of several lost ones)
		}
		if prop == "C17" && !hugeDone && r.Chance(0.012) {
			o.HugeFanout, hugeDone = true, true // (once per history at most: 65537+ outputs in one transaction)
		}
		if fanout {
			// blocks that fan out: several transaction packs, more than 32 spent and created records, in-block chains
			o.NTx = r.Range(8, 45)
			o.InBlockChain = r.Chance(0.7)
		}
		if (prop == "C04" || prop == "C06" || prop == "C11") && r.Chance(0.05) {
			// a block that spends one output each of exactly 32 / 64 / 33 / 31 different confirmed transactions
			// (the unspent set applies deletions in batches of 32 records)
			o.DistinctSrc = []int{32, 64, 32, 64, 33, 31}[r.Intn(6)]
			o.NTx, o.InBlockChain = o.DistinctSrc, false
		}
		mut := ""
		if r.Chance(violP) {
			if len(c05) > 0 && r.Chance(c05p) {
				mut = c05[r.Intn(len(c05))]
				if r.Chance(0.12) {
					mut = ledger.C05Boundary[r.Intn(len(ledger.C05Boundary))]
				}
				if cfg.PadLimit && r.Chance(0.35) {
					mut = "high-hash"
				}
				if o.NTx == 0 {
					o.NTx = 2
				}
			} else if len(viols) > 0 {
				o.Viol = viols[r.Intn(len(viols))]
				if prop == "C04" && cfg.CompressUTXO && r.Chance(0.3) {
					o.Viol = "offcurve-key" // (with compressed records such an output goes through the script compressor before a later block spends it)
				}
			}
		}
		// timestamps: usually ~10 minutes apart, sometimes equal to MTP+1, sometimes a 20-minute gap (test-net rule)
		switch r.Pick(70, 15, 15) {
		case 1:
			o.Time = parent.MTP() + 1
		case 2:
			o.Time = parent.Time + 1201 + uint32(r.Intn(600))
		}
		if gap > 0 && int64(parent.Time) < cfg.Now0-8000 && r.Chance(0.8) {
			// the first block after the gap carries the new era's time (some branches stay in the old era)
			o.Time = uint32(cfg.Now0 - int64(r.Range(0, 3000)))
		}
		if mut == "merkle-dup" {
			o.NTx = []int{2, 4, 5, 5, 9, 11, 13}[r.Intn(7)] // transaction counts whose tree has an odd level above the leaves, too
		}
		b, ok := m.Build(parent, o)
		if !ok {
			continue
		}
		if mut != "" {
			if !m.MutateC05(parent, b, mut, now+int64(len(cfg.Blocks))*30) {
				continue // could not be constructed here (the block may be half-mutated: drop it)
			}
		}
		if int64(b.H.Time) > now && mut != "time-future" {
			now = int64(b.H.Time)
		}
		n := l.Add(b, 1<<40)
		if n == nil {
			if mut == "forged-parent" {
				cfg.Blocks = append(cfg.Blocks, b) // names no block anybody knows: must be treated as an orphan
			}
			continue
		}
		boundary := len(o.Viol) > 3 && o.Viol[:3] == "ok-"
		mutOK := len(mut) > 3 && mut[:3] == "ok-"
		if mutOK && n.Clause != "" {
			panic("generator: boundary mutation " + mut + " made the block invalid: " + n.Clause)
		}
		if (o.Viol != "" && !boundary || mut != "" && mut != "time-future" && !mutOK) && n.Clause == "" {
			// the generator failed to break the rule it wanted to break: keep the block as a valid one, but say so
			b.Label = "intended-" + o.Viol + mut + "-but-valid"
			generatorRejects++
		}
		if (o.Viol == "" || boundary) && mut == "" && n.Clause != "" {
			panic("generator produced an invalid block without intending to (" + o.Viol + "): " + n.Clause)
		}
		cfg.Blocks = append(cfg.Blocks, b)
		made = append(made, n)
		if n.Valid() && n.CumWork.Cmp(best.CumWork) > 0 {
			best = n
		}
	}
	var lightFork *ledger.Node // light-first schedule: the node follows the longer-but-lighter branch before the heavier, shorter one arrives
	if cfg.Long && cfg.Testnet && (prop == "C06" || prop == "C07") && r.Chance(0.5) && int(best.Height) > cfg.plen()+2 {
		// a longer-but-lighter branch: minimum-difficulty blocks (test-net rule, stamped more than twenty minutes
		// after their parents) outnumber the blocks of the active chain above the fork but carry less work
		d := uint32(r.Range(1, 3))
		if fork := best.Ancestor(best.Height - d); fork != nil && int(fork.Height) >= cfg.plen() && fork.Bits != cfg.P.PowLimitBits {
			cur := fork
			if r.Chance(0.6) {
				lightFork = fork
			}
			for j := 0; j < int(d)+1+r.Intn(2); j++ {
				b, ok := m.Build(cur, ledger.BlockOpts{NTx: r.Intn(3), Time: cur.Time + 1201 + uint32(r.Intn(100))})
				if !ok {
					break
				}
				n := l.Add(b, 1<<40)
				if n == nil || !n.Valid() {
					break
				}
				b.Label = "light-branch"
				cfg.Blocks = append(cfg.Blocks, b)
				made = append(made, n)
				cur = n
				if n.CumWork.Cmp(best.CumWork) > 0 {
					best = n
				}
			}
		}
	}
	if (prop == "C06" || prop == "C07") && r.Chance(0.25) && int(best.Height) > cfg.plen()+2 {
		// two reorganisations in a row: branch B (mostly blocks that spend nothing) overtakes the active chain,
		// then branch C, forking inside B, overtakes B - heights are disconnected that were connected by two
		// different branches before
		d := uint32(r.Range(2, 4))
		if fork := best.Ancestor(best.Height - d); fork != nil && fork.Valid() && int(fork.Height) >= cfg.plen() {
			grow := func(from *ledger.Node, k int, ntx func() int) []*ledger.Node {
				var res []*ledger.Node
				cur := from
				for j := 0; j < k; j++ {
					b, ok := m.Build(cur, ledger.BlockOpts{NTx: ntx(), InBlockChain: r.Chance(0.3)})
					if !ok {
						break
					}
					n := l.Add(b, 1<<40)
					if n == nil || !n.Valid() {
						break
					}
					cfg.Blocks = append(cfg.Blocks, b)
					made = append(made, n)
					res = append(res, n)
					cur = n
					if n.CumWork.Cmp(best.CumWork) > 0 {
						best = n
					}
				}
				return res
			}
			bn := grow(fork, int(d)+1, func() int { return r.Pick(70, 20, 10) })
			if len(bn) >= 2 {
				k := r.Intn(len(bn) - 1)
				grow(bn[k], len(bn)-k, func() int { return r.Intn(3) })
			}
		}
	}
	if ((prop == "C06" || prop == "C07") && r.Chance(0.3) || prop == "C11" && r.Chance(0.4)) && int(best.Height) > cfg.plen()+1 {
		// a side branch that outgrows the active chain but whose j-th block (j>=2) is invalid only in context:
		// the reorganisation connects j-1 of its blocks, fails, and must end on the most-work valid chain again
		d := uint32(r.Range(1, 3))
		if prop == "C07" && r.Chance(0.5) && best.Height >= uint32(cfg.plen())+5 {
			d = uint32(r.Range(4, 5)) // a long side branch: several of its blocks are stored before it wins
		}
		if fork := best.Ancestor(best.Height - d); fork != nil && int(fork.Height) >= cfg.plen() {
			cur, bad := fork, r.Range(2, int(d)+1)
			if d >= 4 {
				bad = r.Range(2, 3) // (fails early: the stored blocks behind it are marked invalid one by one)
			}
			second := r.Chance(0.5) // peers send the whole branch a second time later
			if prop == "C06" && r.Chance(0.5) {
				// one or two blocks on top of the active chain are known by their headers only (announced, never
				// sent) when the reorganisation fails: they must not be where the node tries to go back to
				hc := best
				for k := 0; k < 1+r.Intn(2); k++ {
					b, ok := m.Build(hc, ledger.BlockOpts{NTx: r.Intn(2)})
					if !ok {
						break
					}
					n := l.Add(b, 1<<40)
					if n == nil || !n.Valid() {
						break
					}
					b.Label = "header-only"
					cfg.Blocks = append(cfg.Blocks, b)
					hc = n
				}
			}
			tail := r.Intn(2)
			if prop == "C07" && r.Chance(0.5) {
				tail = r.Range(2, 4) // several stored descendants behind the block that fails: their flags are rewritten one by one
			}
			for j := 1; j <= int(d)+1+tail; j++ {
				o := ledger.BlockOpts{NTx: r.Range(1, 4)}
				if j == bad {
					o.Viol = []string{"bad-sig", "spent-input", "overspend", "immature", "double-in-block", "missing-input"}[r.Intn(6)]
				}
				anc := cur
				for !anc.Valid() {
					anc = anc.Parent
				}
				if anc != cur {
					o.ViewFrom = anc
				}
				b, ok := m.Build(cur, o)
				if !ok {
					break
				}
				n := l.Add(b, 1<<40)
				if n == nil {
					break
				}
				cfg.Blocks = append(cfg.Blocks, b)
				made = append(made, n)
				cur = n
				if second {
					retry = append(retry, len(cfg.Blocks)-1)
				}
			}
		}
	}
	// outputs created on one branch and spent on the other: the tip A creates outputs; a child of A that spends one
	// of them is refused (it overspends) after its inputs have been looked up; then a branch from A's parent arrives
	// whose first block spends that very output - which does not exist on its branch - and whose second block
	// makes it the heavier one.  The three are delivered last, in this order.
	crossFrom := -1
	if (prop == "C06" || prop == "C11") && r.Chance(0.15) && best.Valid() && best.Blk != nil && len(best.Blk.Txs) > 1 && int(best.Height) > cfg.plen()+1 {
		crossFrom = len(cfg.Blocks)
		if x, ok := m.Build(best, ledger.BlockOpts{NTx: 1, PreferHeight: best.Height, Viol: "overspend"}); ok {
			if n := l.Add(x, 1<<40); n != nil {
				cfg.Blocks = append(cfg.Blocks, x)
			}
		}
		if b1, ok := m.Build(best.Parent, ledger.BlockOpts{NTx: 1 + r.Intn(2), PreferHeight: best.Height, ViewFrom: best}); ok {
			if n1 := l.Add(b1, 1<<40); n1 != nil {
				b1.Label = "spends-output-of-the-other-branch"
				cfg.Blocks = append(cfg.Blocks, b1)
				if b2, ok := m.Build(n1, ledger.BlockOpts{NTx: 0, ViewFrom: best.Parent}); ok && l.Add(b2, 1<<40) != nil {
					cfg.Blocks = append(cfg.Blocks, b2)
				}
			}
		}
	}
	// delivery schedule
	order := make([]int, len(cfg.Blocks))
	for i := range order {
		order[i] = i
	}
	switch r.Pick(40, 30, 30) {
	case 1: // local shuffles: children may arrive before parents
		for i := 0; i+1 < len(order); i++ {
			if r.Chance(0.3) {
				j := i + 1 + r.Intn(min(3, len(order)-i-1))
				order[i], order[j] = order[j], order[i]
			}
		}
	case 2: // full shuffle
		for i := len(order) - 1; i > 0; i-- {
			j := r.Intn(i + 1)
			order[i], order[j] = order[j], order[i]
		}
	}
	if crossFrom >= 0 {
		var rest, tail []int
		for _, bi := range order {
			if bi >= crossFrom {
				tail = append(tail, bi)
			} else {
				rest = append(rest, bi)
			}
		}
		sort.Ints(tail)
		order = append(rest, tail...)
	}
	saveAfter := -1
	if lightFork != nil {
		// everything that does not descend from the fork point, then the light branch, a snapshot, then the rest
		var before, light, after []int
		for _, bi := range order {
			n := l.Nodes[cfg.Blocks[bi].Hash()]
			switch {
			case cfg.Blocks[bi].Label == "light-branch":
				light = append(light, bi)
			case n != nil && n.Height > lightFork.Height && n.Ancestor(lightFork.Height) == lightFork:
				after = append(after, bi)
			default:
				before = append(before, bi)
			}
		}
		sort.Ints(light)
		if len(light) > 0 {
			saveAfter = light[len(light)-1]
		}
		order = append(append(before, light...), after...)
	}
	var ops []json.RawMessage
	id := 0
	add := func(o Op) { id++; o.ID = id; ops = append(ops, hx.J(o)) }
	var lost []int
	for _, bi := range order {
		if r.Chance(0.04) {
			lost = append(lost, bi)
			continue // lost for now (most histories deliver them late, see below)
		}
		if cfg.Blocks[bi].Label == "header-only" {
			add(Op{Op: "header", B: bi})
			continue
		}
		add(Op{Op: "deliver", B: bi})
		if crossFrom >= 0 && bi >= crossFrom {
			continue // (nothing in between)
		}
		if bi == saveAfter {
			add(Op{Op: "save"})
			add(Op{Op: "tick", Ms: 2000}) // (time for the snapshot to appear before the next block aborts it)
			continue
		}
		if r.Chance(0.07) {
			add(Op{Op: "deliver", B: bi}) // duplicate
		}
		if prop == "C11" {
			// a save in flight when the next block arrives; HurryUp, map defragmentation and Close racing with it
			switch r.Pick(25, 35, 10, 10, 10, 10) {
			case 1:
				add(Op{Op: "idle"})
			case 2:
				add(Op{Op: "save"})
			case 3:
				add(Op{Op: "idle"})
				add(Op{Op: "hurryup"})
			case 4:
				add(Op{Op: "defragmap"})
			case 5:
				add(Op{Op: "idle"})
				add(Op{Op: "reopen"})
			}
			if r.Chance(0.3) {
				add(Op{Op: "tick", Ms: r.Range(1, 60)})
			}
			continue
		}
		if prop == "C17" && r.Chance(0.08) {
			add(Op{Op: "wallet_off"})
			if r.Chance(0.7) {
				add(Op{Op: "wallet_on"})
			}
		}
		if cfg.RealAlloc && r.Chance(0.15) {
			add(Op{Op: "defragmem"})
		}
		switch r.Pick(60, 15, 10, 8, 7) {
		case 1:
			add(Op{Op: "idle"})
		case 2:
			if cfg.Long && r.Chance(0.5) {
				add(Op{Op: "tick", Ms: r.Range(60_000, 1_500_000)}) // the clock keeps up with ten-minute blocks
			} else {
				add(Op{Op: "tick", Ms: r.Range(1, 20000)})
			}
		case 3:
			add(Op{Op: "save"})
		case 4:
			if prop != "C11" {
				add(Op{Op: "reopen"})
			}
		}
	}
	// the branch that failed is offered a second time (a block refused when it was connected may have been
	// stored before; nothing of what the first attempt left behind may make the second one succeed or crash)
	for _, bi := range retry {
		add(Op{Op: "deliver", B: bi})
		if r.Chance(0.2) {
			add(Op{Op: "idle"})
		}
	}
	// late arrival: in most histories every lost block turns up in the end (then whole subtrees that were
	// waiting for it get connected at once); otherwise a few random ones are delivered again
	if r.Chance(0.7) {
		sort.Ints(lost)
		for _, bi := range lost {
			add(Op{Op: "deliver", B: bi})
		}
	} else {
		for bi := range cfg.Blocks {
			if r.Chance(0.05) {
				add(Op{Op: "deliver", B: bi})
			}
		}
	}
	return &hx.Case{Cfg: hx.J(cfg), Ops: ops}
}

func min(a, b int) int {
	if a < b {
		return a
	}
	return b
}

// registerPrefixScripts makes the wallet know every script kind/key combination, so
// that coins of the prefix (created by another Wallet instance with the same keys) are spendable.
func registerPrefixScripts(w *ledger.Wallet, testnet bool) {
	for k := 0; k < ledger.NKinds; k++ {
		for i := 0; i < w.NKeys(); i++ {
			w.Script(k, i)
		}
	}
}

// ---------------------------------------------------------------- gocoin-side template directory

func templateDir(cfg *Cfg) string {
	base := os.Getenv("VSIM_DIR")
	if base == "" {
		base = os.TempDir()
	}
	if sh := os.Getenv("VSIM_SHARED"); sh != "" && cfg.Long {
		base = sh // expensive to build: shared by the child processes of one check
	}
	return fmt.Sprintf("%s/chain-template-n%d-c%v-b%v", base, cfg.net(), cfg.CompressUTXO, cfg.CompressBlocks)
}

// Prepare builds the template directory of the case's option set (if it does not exist yet) outside the case's
// own simulation bubble.
func (H) Prepare(t *testing.T, c *hx.Case) {
	cfg := &Cfg{}
	if json.Unmarshal(c.Cfg, cfg) == nil {
		ensureTemplate(cfg, &hx.Outcome{})
	}
}

// ensureTemplate builds (once per child process and option set) a data directory holding the prefix.
// Runs the real gocoin code under the simulator with a quiet schedule.
func ensureTemplate(cfg *Cfg, out *hx.Outcome) string {
	td := templateDir(cfg)
	if _, err := os.Stat(filepath.Join(td, "ok")); err == nil {
		return td
	}
	final := td
	td = fmt.Sprintf("%s.tmp%d", final, os.Getpid())
	os.RemoveAll(td)
	os.MkdirAll(td, 0770)
	writeGenesisSnapshot(td, cfg.genesis(), cfg.CompressUTXO)
	var fail string
	clock := int64(genesisTime + (prefixLen+1)*600)
	for _, b := range prefix(cfg) {
		if int64(b.H.Time) > clock {
			clock = int64(b.H.Time)
		}
	}
	res := simrt.Run(simrt.Config{Seed: 1, YieldP: 0, MaxConsec: 1 << 30, StepBudget: 1 << 40}, func() {
		simrt.Sleep(time.Unix(clock, 0).Sub(time.Now()))
		n := Boot(td, NodeOpts{P: cfg.baseP(), Genesis: cfg.genesis(), CompressBlocks: cfg.CompressBlocks, CacheBlocks: 10, LibraryTail: cfg.Testnet4})
		for i, b := range prefix(cfg) {
			if err, st, _ := n.Deliver(b.Bytes()); err != nil {
				fail = fmt.Sprintf("prefix block %d refused at %s: %v", i+1, st, err)
				return
			}
		}
		n.Close()
	})
	if res.Failed() || fail != "" {
		fmt.Fprintln(os.Stderr, "chainsim: cannot build the template directory:", fail, res.Panic, res.Deadlock, res.Blocked, res.Steps)
		os.Exit(2)
	}
	os.WriteFile(filepath.Join(td, "ok"), []byte("ok"), 0660)
	if err := os.Rename(td, final); err != nil {
		os.RemoveAll(td) // another child process has finished the same template first
		if _, err := os.Stat(filepath.Join(final, "ok")); err != nil {
			fmt.Fprintln(os.Stderr, "chainsim: cannot put the template directory in place:", err)
			os.Exit(2)
		}
	}
	return final
}

// ---------------------------------------------------------------- run

type run struct {
	prop    string
	reloads bool // C17: the configuration was reloaded (with another minimum value, then the old one) during a build
	cfg     *Cfg
	out     *hx.Outcome
	l       *ledger.Ledger
	nodes   []*ledger.Node // ledger node per cfg.Blocks index (nil if its parent is unknown to the ledger)
	n       *Node
	dir     string
	now     int64
	model   *ledger.Node          // expected tip
	status  map[[32]byte]int      // 0 unseen, 1 accepted (stored or connected), 2 refused for good, 3 waiting for parent
	waiting map[[32]byte][]int    // parent hash -> block indexes waiting
	seenAt  map[[32]byte]int
	bad     bool
	lastSaveHeight uint32
	failedReorg bool
	lenientTip  bool
	inNode      int
	dataCut     int // recovery image: bytes cut off the end of the newest block data file
	hookLog     []hookEvent
	everPaid    map[string]bool
	delivAt     map[[32]byte]int // effect-log length when the block was first handed to the node
	delivOrder  []int
	isPrefix    map[[32]byte]bool
}

func bidx(h [32]byte) [btc.Uint256IdxLen]byte { return btc.NewUint256(h[:]).BIdx() }

func (r *run) viol(class, format string, a ...any) {
	r.out.Violate(r.prop, class, format, a...)
	r.bad = true
}

func hs(h [32]byte) string {
	var b [32]byte
	for i := range h {
		b[31-i] = h[i]
	}
	return hex.EncodeToString(b[:6])
}

// compareState checks tip and unspent set against the model tip.
func (r *run) compareState(when string) {
	if r.bad {
		return
	}
	th, theight := r.n.Tip()
	if r.lenientTip {
		// re-feeding after a crash: which of its stored blocks the node has connected so far depends on the
		// order in which reorganisations get triggered; only consistency is required here (C07 judges the final state)
		tn := r.l.Nodes[th]
		if tn == nil || !tn.Valid() {
			r.viol("tip.invalid", "%s: the node's tip %s (height %d) is not a valid block of the history", when, hs(th), theight)
			return
		}
		r.model = tn
		r.failedReorg = false
		r.compareUTXO(when)
		return
	}
	if th != r.model.Hash && r.failedReorg {
		// a reorganisation has just failed on an invalid block: gocoin re-selects its tip with
		// FindFarthestNode, whose tie-break among equal-work branches is child order (random after a restart)
		if tn := r.l.Nodes[th]; tn != nil && tn.Valid() && r.status[th] == 1 && r.ancestryAccepted(tn) && tn.CumWork.Cmp(r.model.CumWork) == 0 {
			if r.prop == "C06" {
				r.out.Violate(r.prop, "tip.tie-after-failed-reorg", "%s: after a failed reorganisation the node's tip is %s although the equal-work branch ending in %s was seen first", when, hs(th), hs(r.model.Hash))
			} else {
				r.out.Probe("tie_after_failed_reorg(see C06 finding)", 1)
			}
			r.model = tn
		}
	}
	r.failedReorg = false
	if th != r.model.Hash {
		// is an invalid block part of the node's active chain?  Then that is the finding, not the tip as such.
		var firstBad *ledger.Node
		for p := r.l.Nodes[th]; p != nil && p.Blk != nil; p = p.Parent {
			if p.Clause != "" && p.Clause != "parent-invalid" {
				firstBad = p
			}
		}
		if firstBad != nil {
			r.viol(clauseClass(firstBad.Clause), "%s: block %s (height %d, generator label %q) violates %q per the reference ledger and is part of the node's active chain (tip %s height %d)", when, hs(firstBad.Hash), firstBad.Height, firstBad.Blk.Label, firstBad.Clause, hs(th), theight)
			return
		}
		r.viol("tip.mismatch", "%s: the node's tip is %s (height %d), the most-work valid chain among delivered blocks (first seen wins ties) ends in %s (height %d, work %s)", when, hs(th), theight, hs(r.model.Hash), r.model.Height, r.model.CumWork.String())
		return
	}
	r.compareUTXO(when)
}

func (r *run) compareUTXO(when string) {
	if r.prop == "C17" {
		defer r.compareWallet(when)
	}
	got := r.n.Dump()
	want := r.model.UTXO()
	if d := diffUTXO(got, want); d != "" {
		r.viol("utxo.mismatch", "%s: the unspent set differs from the replay of the tip's chain (tip %s height %d): %s", when, hs(r.model.Hash), r.model.Height, d)
	}
}

func diffUTXO(got, want map[ledger.OutPoint]ledger.Coin) string {
	var extra, missing, differ []string
	for op, c := range got {
		w, ok := want[op]
		if !ok {
			extra = append(extra, fmt.Sprintf("%s:%d(%d sat)", hs(op.Hash), op.N, c.Value))
		} else if w.Value != c.Value || !bytes.Equal(w.Pk, c.Pk) || w.Height != c.Height || w.Coinbase != c.Coinbase {
			differ = append(differ, fmt.Sprintf("%s:%d got(value=%d height=%d cb=%v pk=%x) want(value=%d height=%d cb=%v pk=%x)", hs(op.Hash), op.N, c.Value, c.Height, c.Coinbase, c.Pk, w.Value, w.Height, w.Coinbase, w.Pk))
		}
	}
	for op, c := range want {
		if _, ok := got[op]; !ok {
			missing = append(missing, fmt.Sprintf("%s:%d(%d sat)", hs(op.Hash), op.N, c.Value))
		}
	}
	if len(extra)+len(missing)+len(differ) == 0 {
		return ""
	}
	sort.Strings(extra)
	sort.Strings(missing)
	sort.Strings(differ)
	cut := func(s []string) []string {
		if len(s) > 6 {
			return append(s[:6], fmt.Sprintf("... %d more", len(s)-6))
		}
		return s
	}
	return fmt.Sprintf("%d outputs that should not be there %v, %d missing %v, %d with different contents %v", len(extra), cut(extra), len(missing), cut(missing), len(differ), cut(differ))
}

// connectable: is the whole ancestry of n delivered and accepted?
func (r *run) ancestryAccepted(n *ledger.Node) bool {
	for p := n.Parent; p != nil && p.Blk != nil; p = p.Parent {
		if r.status[p.Hash] != 1 {
			return false
		}
	}
	return true
}

// deliver hands block index bi to the node and evaluates the oracles.
func (r *run) deliver(bi int, when string) {
	if r.bad || bi >= len(r.cfg.Blocks) {
		return
	}
	blk := r.cfg.Blocks[bi]
	hh := blk.Hash()
	ln := r.nodes[bi]
	if ln == nil && blk.Label == "forged-parent" {
		err, _, _ := r.n.Deliver(blk.Bytes())
		r.out.Probe("forged_parent_delivered", 1)
		if err == nil {
			r.viol("accepted-invalid.forged-parent", "%s: block %s names a previous block %x that nobody has ever seen (it shares just its first 8 bytes with a known block's hash) and was accepted into the block tree", when, hs(hh), blk.H.Prev[:])
		}
		return
	}
	if ln == nil || r.status[ln.Hash] == 4 {
		return
	}
	tipBefore, _ := r.n.Tip()
	var dumpBefore map[ledger.OutPoint]ledger.Coin
	parentIsTip := ln.Parent != nil && ln.Parent.Hash == tipBefore
	expectRefuse := false
	if parentIsTip && !ln.Valid() && r.status[hh] == 0 {
		expectRefuse = true
		dumpBefore = r.n.Dump()
	}
	tooNew := int64(blk.H.Time) > r.now+2*60*60
	if r.delivAt != nil {
		if _, seen := r.delivAt[hh]; !seen {
			r.delivAt[hh] = simos.LogLen()
			r.delivOrder = append(r.delivOrder, bi)
		}
	}
	r.inNode++
	err, stage, maybeLater := r.n.Deliver(blk.Bytes())
	r.inNode-- // (stays raised when the node panics: deferred oracles of outer frames then stand back)
	if os.Getenv("VSIM_DEBUG") != "" {
		th, thh := r.n.Tip()
		fmt.Fprintf(os.Stderr, "DBG %s: block[%d] %s h=%d bits=%08x valid=%v -> err=%v stage=%s later=%v | node tip %s h=%d | model %s h=%d\n", when, bi, hs(hh), ln.Height, blk.H.Bits, ln.Valid(), err, stage, maybeLater, hs(th), thh, hs(r.model.Hash), r.model.Height)
	}
	defer r.syncPurged(when)
	r.out.Probe("deliveries", 1)
	st := r.status[hh]
	switch {
	case err == nil:
		if st == 1 {
			r.viol("deliver.duplicate-accepted", "%s: block %s was accepted a second time", when, hs(hh))
			return
		}
		r.status[hh] = 1
		r.out.Probe("accepted", 1)
		if ln.Valid() {
			for _, t := range blk.Txs[1:] {
				for _, in := range t.In {
					w := in.Wit
					annex := len(w) >= 2 && len(w[len(w)-1]) > 0 && w[len(w)-1][0] == 0x50
					if annex {
						w = w[:len(w)-1]
					}
					kind := "legacy_or_p2sh"
					switch {
					case len(w) == 1 && (len(w[0]) == 64 || len(w[0]) == 65):
						kind = "taproot_key_path"
					case len(w) >= 3 && len(w[len(w)-1]) >= 33 && (len(w[len(w)-1])-33)%32 == 0 && w[len(w)-1][0]&0xfe == 0xc0:
						kind = fmt.Sprintf("taproot_script_path_depth%d", (len(w[len(w)-1])-33)/32)
					case len(w) == 2 && len(w[1]) == 33:
						kind = "segwit_v0_keyhash"
					case len(w) > 0:
						kind = "segwit_v0_script"
					}
					if annex {
						kind += "+annex"
					}
					r.out.Probe("connected_input:"+kind, 1)
				}
			}
		}
		if ln.Height%2016 == 0 && ln.Parent != nil {
			if first := ln.Parent.Ancestor(ln.Parent.Height - 2015); first != nil {
				const twoWeeks = 14 * 24 * 3600
				span := int64(ln.Parent.Time) - int64(first.Time)
				switch {
				case span < 0:
					r.out.Probe("retarget_block_accepted:timespan_negative", 1)
				case span < twoWeeks/4:
					r.out.Probe("retarget_block_accepted:timespan_below_quarter", 1)
				case span <= twoWeeks*4:
					r.out.Probe("retarget_block_accepted:timespan_inside", 1)
				default:
					r.out.Probe("retarget_block_accepted:timespan_above_4x", 1)
				}
			}
		}
		if ln.Bits != r.cfg.P.PowLimitBits && ln.Parent != nil && ln.Parent.Bits != ln.Bits {
			r.out.Probe("accepted_block_changes_target", 1)
		}
		if len(blk.Label) > 3 && blk.Label[:3] == "ok-" {
			r.out.Probe("accepted_boundary:"+blk.Label, 1)
		}
	case stage == "check" && maybeLater:
		// parent unknown to the node
		if r.status[ln.Parent.Hash] == 1 {
			r.viol("deliver.parent-not-found", "%s: block %s refused with 'parent not found' (%v) although its parent %s (height %d) had been accepted", when, hs(hh), err, hs(ln.Parent.Hash), ln.Parent.Height)
			return
		}
		if st == 0 {
			r.status[hh] = 3
			r.waiting[ln.Parent.Hash] = append(r.waiting[ln.Parent.Hash], bi)
		}
		r.out.Fault("parent_withheld", 1)
		return
	default:
		// refused
		if st == 1 {
			r.out.Fault("duplicate_delivery", 1)
			return // duplicate of a known block: "already in"
		}
		r.out.Probe("refused", 1)
		if tooNew {
			r.out.Probe("refused_time_too_new", 1)
			return // may come again later
		}
		r.status[hh] = 2
		if stage == "accept" {
			r.failedReorg = true
		}
		if ln.Valid() && r.ancestryAccepted(ln) {
			r.viol("deliver.valid-refused", "%s: block %s (height %d, label %q) is valid per the reference ledger and its ancestry was accepted, but the node refused it at %s: %v", when, hs(hh), ln.Height, blk.Label, stage, err)
			return
		}
	}
	if err == nil {
		if ln.Parent != nil && r.status[ln.Parent.Hash] == 2 {
			r.viol("deliver.child-of-refused-accepted", "%s: block %s was accepted although its parent %s had been refused (%s): the refused block must not have entered the block index", when, hs(hh), hs(ln.Parent.Hash), ln.Parent.Clause)
			return
		}
		if tooNew {
			r.viol("c05.time-too-new", "%s: block %s with timestamp %d accepted while the node's clock is %d (more than two hours ahead)", when, hs(hh), blk.H.Time, r.now)
			return
		}
		if expectRefuse {
			r.viol(clauseClass(ln.Clause), "%s: block %s (height %d, generator label %q) violates %q per the reference ledger, its parent was the active tip, and the node accepted it", when, hs(hh), ln.Height, blk.Label, ln.Clause)
			return
		}
		if !ln.AncBad && contextFree[ln.Clause] {
			// header / structure / commitment rules are checked before a block enters the tree, on any branch
			r.viol(clauseClass(ln.Clause), "%s: block %s (height %d, generator label %q) violates the header/structure rule %q per the reference ledger and was accepted into the block tree (as a side-branch block)", when, hs(hh), ln.Height, blk.Label, ln.Clause)
			return
		}
		// model: newly connectable valid nodes may take over the tip (strictly more work only)
		r.advanceModel(ln)
		// children that were waiting for this block
		r.compareState(when)
		for _, wi := range r.waiting[hh] {
			if r.status[r.cfg.Blocks[wi].Hash()] == 3 {
				r.status[r.cfg.Blocks[wi].Hash()] = 0
				r.deliver(wi, when+" -> retry of waiting child")
			}
		}
		delete(r.waiting, hh)
		return
	}
	if expectRefuse {
		// refused as it should be: nothing may have changed
		th, _ := r.n.Tip()
		if th != tipBefore {
			r.viol("refusal.tip-changed", "%s: refusing block %s moved the tip", when, hs(hh))
			return
		}
		if d := diffUTXO(r.n.Dump(), dumpBefore); d != "" {
			r.viol("refusal.utxo-changed", "%s: refusing block %s (clause %s) changed the unspent set: %s", when, hs(hh), ln.Clause, d)
			return
		}
		r.out.Probe("refused_invalid_on_tip:"+ln.Clause, 1)
	}
	r.compareState(when)
}

// syncPurged: when a reorganisation meets an invalid block, gocoin deletes it and all
// its descendants from the block index; such blocks may be delivered (and stored) again.
// A block that is valid with an all-valid ancestry must never disappear.
func (r *run) syncPurged(when string) {
	if r.bad || r.inNode > 0 {
		return // inNode > 0: a panic of the node is unwinding through this frame; it is reported as such
	}
	r.n.Ch.BlockIndexAccess.Lock()
	defer r.n.Ch.BlockIndexAccess.Unlock()
	for i, ln := range r.nodes {
		if ln == nil || r.status[ln.Hash] != 1 {
			continue
		}
		_, present := r.n.Ch.BlockIndex[btc.NewUint256(ln.Hash[:]).BIdx()]
		if present {
			continue
		}
		if ln.Valid() {
			if os.Getenv("VSIM_DEBUG") != "" {
				fmt.Fprintf(os.Stderr, "DBG syncPurged %s: block[%d] %s missing; index size %d; lenient=%v\n", when, i, hs(ln.Hash), len(r.n.Ch.BlockIndex), r.lenientTip)
				for j, x := range r.nodes {
					if x != nil {
						_, pr := r.n.Ch.BlockIndex[btc.NewUint256(x.Hash[:]).BIdx()]
						fmt.Fprintf(os.Stderr, "DBG   block[%d] %s h=%d status=%d inIndex=%v valid=%v\n", j, hs(x.Hash), x.Height, r.status[x.Hash], pr, x.Valid())
					}
				}
			}
			r.viol("index.valid-block-lost", "%s: block[%d] %s is valid with an all-valid ancestry and had been accepted, but is gone from the node's block index", when, i, hs(ln.Hash))
			return
		}
		r.status[ln.Hash] = 0
		r.out.Probe("invalid_branch_purged", 1)
	}
}

// contextFree: clauses the node must enforce when a block is delivered, whatever branch it is on.
var contextFree = map[string]bool{"block-length": true, "bits-encoding": true, "high-hash": true, "bad-diffbits": true, "time-too-old": true,
	"bad-version": true, "first-not-coinbase": true, "multiple-coinbase": true, "tx-no-inputs": true, "tx-no-outputs": true, "tx-oversize": true,
	"tx-duplicate-input": true, "tx-null-prevout": true, "coinbase-script-length": true, "bad-cb-height": true, "non-final": true,
	"merkle-mutated": true, "bad-merkle-root": true, "witness-nonce-size": true, "witness-merkle-mismatch": true, "unexpected-witness": true,
	"weight": true, "value-out-of-range": true, "value-sum-out-of-range": true}

func clauseClass(c string) string {
	switch c {
	case "script":
		return "c04.script"
	}
	return "accepted-invalid." + c
}

// advanceModel: ln has just been accepted by the node.  Every valid node that thereby
// becomes connectable is considered in the order gocoin meets them.
func (r *run) advanceModel(ln *ledger.Node) {
	var consider func(n *ledger.Node)
	consider = func(n *ledger.Node) {
		if !n.Valid() || r.status[n.Hash] != 1 {
			return
		}
		if n.Height > r.model.Height && n.CumWork.Cmp(r.model.CumWork) <= 0 {
			r.out.Probe("longer_but_not_heavier_branch_ignored", 1)
		}
		if n.Height <= r.model.Height && n.CumWork.Cmp(r.model.CumWork) > 0 {
			r.out.Probe("shorter_or_equal_but_heavier_branch_wins", 1)
		}
		if n.CumWork.Cmp(r.model.CumWork) > 0 {
			if n.Parent != r.model {
				r.out.Probe("reorg", 1)
				if r.lastSaveHeight > 0 {
					r.out.Probe("reorg_after_snapshot", 1)
				}
			}
			r.model = n
		}
	}
	if r.ancestryAccepted(ln) {
		consider(ln)
		// stored descendants (accepted earlier as side blocks while this one was missing cannot exist:
		// a block is accepted only when its parent is known) - nothing more to do
	}
}

func (H) Run(t *testing.T, c *hx.Case) *hx.Outcome {
	out := &hx.Outcome{}
	cfg := &Cfg{}
	if err := json.Unmarshal(c.Cfg, cfg); err != nil {
		out.Inconclusive = "bad cfg: " + err.Error()
		return out
	}
	var ops []*Op
	for _, raw := range c.Ops {
		var o Op
		if json.Unmarshal(raw, &o) == nil {
			ops = append(ops, &o)
		}
	}
	prop := c.Prop
	if prop == "" {
		prop = "C06"
	}
	for name, on := range map[string]bool{"variant_long_prefix": cfg.Long, "variant_young_chain": cfg.Young > 0, "variant_padded_pow_limit": cfg.PadLimit, "variant_big_unspent_set": cfg.BigSet, "variant_fresh_dir": cfg.FreshDir, "variant_real_allocator": cfg.RealAlloc, "variant_testnet": cfg.Testnet} {
		if on {
			out.Probe(name, 1)
		}
	}
	td := ensureTemplate(cfg, out)
	root := hx.RunDir("chain", c.Seed)
	defer os.RemoveAll(root)
	if cfg.FreshDir {
		// a node that has never written a snapshot: block files only.  The start-up code then takes its "no
		// UTXO.db, no UTXO.old: start empty and re-apply everything" path (256 maps sized for the main net)
		td2 := filepath.Join(root, "template-without-snapshot")
		if err := simos.CopyTree(td, td2); err != nil {
			fmt.Fprintln(os.Stderr, "chainsim: copy template:", err)
			os.Exit(2)
		}
		os.Remove(filepath.Join(td2, "UTXO.db"))
		os.Remove(filepath.Join(td2, "UTXO.old"))
		os.RemoveAll(filepath.Join(td2, "undo"))
		td = td2
		out.Probe("started_without_any_snapshot", 1)
	}
	dir := filepath.Join(root, "node")
	if err := simos.CopyTree(td, dir); err != nil {
		fmt.Fprintln(os.Stderr, "chainsim: copy template:", err)
		os.Exit(2)
	}
	os.Remove(filepath.Join(dir, "ok"))
	simos.Reset(dir)

	r := &run{prop: prop, cfg: cfg, out: out, dir: dir, status: map[[32]byte]int{}, waiting: map[[32]byte][]int{}, everPaid: map[string]bool{}}
	var tip *ledger.Node
	r.l, tip = newLedger(cfg)
	r.model = tip
	r.delivAt, r.isPrefix = map[[32]byte]int{}, map[[32]byte]bool{}
	for p := tip; p != nil; p = p.Parent {
		r.status[p.Hash] = 1 // the prefix is in the template directory
		r.isPrefix[p.Hash] = true
	}
	for _, b := range cfg.Blocks {
		r.nodes = append(r.nodes, r.l.Add(b, 1<<40))
	}
	r.now = cfg.Now0
	if prop == "C17" {
		// every address of the wallet's keys is looked at in every comparison, paid to or not (an output must not
		// show up under an address whose script it does not carry)
		w := ledger.NewWallet(walletSeed, walletKeys)
		for _, kd := range []int{ledger.KP2PKH, ledger.KP2WPKH, ledger.KP2SHWPKH, ledger.KP2TR, ledger.KP2WSHTrue, ledger.KP2SHTrue} {
			for i := 0; i < walletKeys; i++ {
				r.everPaid[string(w.Script(kd, i))] = true
			}
		}
	}

	scfg := simrt.Config{Seed: cfg.SchedSeed, YieldP: cfg.YieldP, TimerP: cfg.TimerP, MaxConsec: cfg.MaxConsec, StepBudget: 30_000_000, PCT: cfg.PCT, PCTSteps: cfg.PCTSteps, ChildFirstP: cfg.ChildFirstP}
	res := simrt.Run(scfg, func() {
		simrt.Sleep(time.Unix(cfg.Now0, 0).Sub(time.Now()))
		if prop == "C11" || prop == "C07" {
			simos.OnEffect = r.onEffect
		}
		r.boot()
		r.compareState("after opening the template directory")
		for _, o := range ops {
			r.drainHooks()
			if r.bad {
				break
			}
			r.now = time.Now().Unix()
			when := fmt.Sprintf("op#%d %s", o.ID, o.Op)
			switch o.Op {
			case "deliver":
				r.deliver(o.B, fmt.Sprintf("op#%d deliver block[%d]", o.ID, o.B))
			case "header":
				// a peer announces the block by its header; the block itself is never sent
				if o.B < len(cfg.Blocks) && r.nodes[o.B] != nil && r.status[r.nodes[o.B].Hash] == 0 {
					if err := r.n.Header(cfg.Blocks[o.B].Bytes()); err == nil {
						r.status[r.nodes[o.B].Hash] = 4 // known by header only: never part of the expected chain
						r.out.Probe("header_only_node", 1)
					}
					r.compareState(when)
				}
			case "idle":
				if r.n.Ch.Idle() {
					r.out.Probe("idle_started_save", 1)
					r.lastSaveHeight = r.model.Height
				}
			case "save":
				// the operator's "save UTXO now" command (client/usif/textui save_utxo): flush blocks, then snapshot
				r.n.Ch.Blocks.Idle()
				r.n.Ch.Unspent.HurryUp()
				if r.n.Ch.Unspent.Save() {
					r.out.Probe("explicit_save", 1)
					r.lastSaveHeight = r.model.Height
				}
			case "wallet_off":
				if r.prop == "C17" {
					if common.Get(&common.WalletON) && (uint64(o.ID)^cfg.SchedSeed)%2 == 0 {
						r.walletSaveRestore(o, when)
					} else {
						wallet.Disable()
					}
					r.out.Probe("index_switched_off", 1)
				}
			case "wallet_on":
				if r.prop == "C17" {
					var reload simsync.WaitGroup
					if (uint64(o.ID)^cfg.SchedSeed)%3 == 0 {
						// meanwhile the configuration is reloaded on another goroutine (the web UI's), with another
						// minimum value and then with the old one again: the index being built must not notice
						reload.Add(1)
						simrt.Go(func() {
							defer reload.Done()
							orig := common.CFG.AllBalances.MinValue
							for k := 0; k < 2; k++ {
								simrt.Yield()
								common.LockCfg()
								common.CFG.AllBalances.MinValue = orig + 777_000_000
								common.UnlockCfg()
								common.Reset()
								simrt.Yield()
								common.LockCfg()
								common.CFG.AllBalances.MinValue = orig
								common.UnlockCfg()
								common.Reset()
							}
						})
						r.out.Probe("config_reloaded_while_the_index_is_built", 1)
						r.reloads = true
					}
					wallet.LoadBalancesFromUtxo()
					reload.Wait()
					r.out.Probe("index_built_from_populated_set", 1)
					r.compareWallet(when)
				}
			case "defragmem":
				var moved, movedNode int
				simrt.Quiet(func() { moved, movedNode = r.n.DefragMem(hx.NewRng(uint64(o.ID) ^ cfg.SchedSeed)) })
				if moved > 0 {
					r.out.Probe("allocator_defrag_moved_allocations", int64(moved))
				}
				if movedNode > 0 {
					r.out.Probe("allocator_defrag_moved_utxo_records", int64(movedNode))
				}
				r.out.Probe("allocator_defrag", 1)
				r.compareUTXO(when)
			case "hurryup":
				r.n.Ch.Unspent.HurryUp()
			case "defragmap":
				r.n.Ch.Unspent.DefragMap(true)
				r.out.Probe("defrag_map", 1)
			case "tick":
				simrt.Sleep(time.Duration(o.Ms) * time.Millisecond)
			case "reopen":
				r.n.Close()
				r.boot()
				r.out.Probe("clean_reopen", 1)
				r.compareState(when + " (clean close + reopen)")
			}
		}
		r.drainHooks()
		if !r.bad {
			// bounded liveness: everything that was delivered has been processed; final state must be the model's
			r.compareState("end of history")
		}
		if !r.bad {
			r.n.Close()
			if fs, _ := filepath.Glob(filepath.Join(r.dir, "*.db.tmp")); len(fs) > 0 {
				r.viol("snapshot.tmp-left-behind", "after Close() %d unfinished snapshot file(s) remain: %v", len(fs), fs)
			}
			r.drainHooks()
			r.boot()
			r.compareState("final clean close + reopen")
			r.n.Close()
			r.drainHooks()
		}
	})
	out.Evals = 1
	out.Sample = r.sample(ops)
	if prop == "C02" {
		// only script-related disagreements belong to C02; everything else is the business of C04/C06
		var keep []hx.Violation
		for _, v := range out.Violations {
			if v.Class == "c04.script" || v.Class == "deliver.valid-refused" && strings.Contains(v.Msg, "VerifyScript") {
				keep = append(keep, v)
			} else if !strings.HasPrefix(v.Class, "sim.") {
				out.Probe("not_a_c02_matter:"+v.Class, 1)
			} else {
				keep = append(keep, v)
			}
		}
		out.Violations = keep
	}
	if !out.Absorb(prop, "history", &res) {
		return out
	}
	out.StateHash = fmt.Sprintf("%x/%d", r.model.Hash[:6], len(r.model.UTXO()))
	if prop == "C07" {
		// audit of the seam: replaying the whole effect log over the template reproduces the live directory
		chk := filepath.Join(root, "chk")
		live := simos.Snapshot()
		if err := simos.Materialize(td, live, len(live), -1, chk); err != nil {
			fmt.Fprintln(os.Stderr, "SEAM AUDIT FAILED: cannot materialise:", err)
			os.Exit(2)
		}
		os.Remove(filepath.Join(chk, "ok"))
		h1, _ := simos.TreeHash(dir)
		h2, _ := simos.TreeHash(chk)
		if h1 != h2 {
			fmt.Fprintln(os.Stderr, "SEAM AUDIT FAILED: replaying the effect log does not reproduce the live directory")
			os.Exit(2)
		}
		os.RemoveAll(chk)
	}
	if prop == "C07" && !r.bad && len(out.Violations) == 0 {
		want := cfg.CrashPoints
		if want == 0 {
			want = 12
		}
		r.crashImages(root, td, simos.Snapshot(), c.Seed, want)
	}
	return out
}

func (r *run) boot() {
	cfg := r.cfg
	utxo.UTXO_WRITING_TIME_TARGET = time.Duration(cfg.SaveTargetMs) * time.Millisecond
	utxo.UTXO_SKIP_SAVE_BLOCKS = cfg.SkipSave
	r.n = Boot(r.dir, NodeOpts{P: cfg.P, Genesis: cfg.genesis(), CompressBlocks: cfg.CompressBlocks, CacheBlocks: cfg.CacheBlocks,
		MaxFileSize: uint64(cfg.MaxFileKB) << 10, ClientRecovery: cfg.ClientRecovery, LibraryTail: cfg.Testnet4, RealAlloc: cfg.RealAlloc, CompressOpt: cfg.FreshDir && cfg.CompressUTXO})
	if r.n.ParseTillLeft && !r.bad {
		r.viol("client.network-held-after-replay", "the client's start-up replay of stored blocks ended without reaching the block it was heading for (a stored block failed on the way) and common.Last.ParseTill stays set: the main loop skips every network tick while it is (\"hold on network for now\"), so the node stays deaf until it is restarted (tip %s)", hs(r.n.Ch.LastBlock().BlockHash.Hash))
	}
	if cfg.TrustChecker {
		// as client/txpool does for transactions it has verified itself (same wtxid): script checks are skipped
		// for THESE transactions only
		verified := map[[32]byte]bool{}
		for _, b := range cfg.Blocks {
			for _, t := range b.Txs[1:] {
				ok := true
				for i := range t.In {
					ok = ok && t.InputValid(i)
				}
				if w := t.WID(); ok && w[0]&1 == 0 {
					verified[w] = true
				}
			}
		}
		chain.TrustedTxChecker = func(tx *btc.Tx) bool {
			hit := verified[tx.WTxID().Hash]
			if hit {
				r.hookNote("", "transaction_trusted_as_pool_verified")
			}
			return hit
		}
	}
	if cfg.RealAlloc {
		simrt.Quiet(func() {
			if k := r.n.Ballast(hx.NewRng(cfg.SchedSeed^0xBA11A57), r.prop == "C20"); k > 0 {
				r.out.Probe("allocator_classes_with_slot_reuse", int64(k))
			}
		})
	}
	if r.prop == "C17" {
		common.BlockChain = r.n.Ch
		common.GocoinHomeDir = r.dir + "/"
		common.Testnet = cfg.Testnet
		common.CFG.Testnet = cfg.Testnet
		common.CFG.Memory.GCPercTrshold = 100 // (common.Reset() applies it)
		common.CFG.AllBalances.MinValue = cfg.WalletMinVal
		common.CFG.AllBalances.UseMapCnt = cfg.WalletUseMap
		common.Set(&common.WalletON, false)
		wallet.FetchingBalanceTick = nil
		wallet.LoadBalancesFromUtxo() // as the client does after opening the chain: builds the index and installs the callbacks
	}
}

func (r *run) sample(ops []*Op) any {
	var bl []string
	for i, b := range r.cfg.Blocks {
		if i >= 40 {
			bl = append(bl, "...")
			break
		}
		n := r.nodes[i]
		s := fmt.Sprintf("[%d] %s", i, hs(b.Hash()))
		if n != nil {
			s += fmt.Sprintf(" h=%d parent=%s txs=%d", n.Height, hs(b.H.Prev), len(b.Txs))
			if n.Clause != "" {
				s += " INVALID:" + n.Clause
			}
		}
		if b.Label != "" {
			s += " label=" + b.Label
		}
		bl = append(bl, s)
	}
	var ol []string
	for i, o := range ops {
		if i >= 60 {
			ol = append(ol, "...")
			break
		}
		switch o.Op {
		case "deliver":
			ol = append(ol, fmt.Sprintf("deliver[%d]", o.B))
		case "tick":
			ol = append(ol, fmt.Sprintf("tick %dms", o.Ms))
		default:
			ol = append(ol, o.Op)
		}
	}
	sc := *r.cfg
	sc.Blocks = nil
	return map[string]any{"cfg": sc, "blocks": bl, "ops": ol}
}

// onEffect runs just before a file-system effect is applied.  When a snapshot becomes visible under
// its final name it must describe the unspent set of exactly the block named in its header.
func (r *run) onEffect(e *simos.Effect) {
	if e.Kind != simos.KRename || filepath.Base(e.Path2) != "UTXO.db" || r.hookBad() {
		return
	}
	d, err := os.ReadFile(filepath.Join(simos.Root, e.Path))
	if err != nil || len(d) < 48 {
		r.hookNote("snapshot.unreadable", fmt.Sprintf("a file of %d bytes (%v) is being renamed to UTXO.db", len(d), err))
		return
	}
	r.hookNote("", "snapshot_became_visible")
	height := binary.LittleEndian.Uint64(d[0:8]) &^ (1 << 63)
	var hash [32]byte
	copy(hash[:], d[8:40])
	count := binary.LittleEndian.Uint64(d[40:48])
	ln := r.l.Nodes[hash]
	if ln == nil || uint64(ln.Height) != height {
		r.hookNote("snapshot.header", fmt.Sprintf("a snapshot naming block %s at height %d became visible; the ledger has no such block at that height", hs(hash), height))
		return
	}
	got := map[ledger.OutPoint]ledger.Coin{}
	off := 48
	recs := uint64(0)
	for off < len(d) {
		l, n := btc.VLen(d[off:])
		if n == 0 || off+n+l > len(d) {
			r.hookNote("snapshot.truncated", fmt.Sprintf("the snapshot of block %s that became visible is truncated at byte %d of %d", hs(hash), off, len(d)))
			return
		}
		off += n
		rec := utxo.NewUtxoRec(d[off : off+l])
		off += l
		recs++
		for vout, o := range rec.Outs {
			if o != nil {
				got[ledger.OutPoint{Hash: rec.TxID, N: uint32(vout)}] = ledger.Coin{Value: o.Value, Pk: append([]byte(nil), o.PKScr...), Height: rec.InBlock, Coinbase: rec.Coinbase}
			}
		}
	}
	if recs != count {
		r.hookNote("snapshot.count", fmt.Sprintf("the snapshot of block %s holds %d records but its header says %d", hs(hash), recs, count))
		return
	}
	if !ln.Valid() {
		r.hookNote("snapshot.of-invalid-block", fmt.Sprintf("a snapshot of block %s became visible, which the ledger calls invalid (%s)", hs(hash), ln.Clause))
		return
	}
	if df := diffUTXO(got, ln.UTXO()); df != "" {
		r.hookNote("snapshot.contents", fmt.Sprintf("the snapshot that became visible names block %s (height %d) but its records are not the unspent set of that block: %s", hs(hash), height, df))
	}
}

type hookEvent struct{ class, msg string }

// hookNote records a finding made inside a gocoin goroutine (race-invisible; merged by the main goroutine).
//
//go:norace
func (r *run) hookNote(class, msg string) { r.hookLog = append(r.hookLog, hookEvent{class, msg}) }

//go:norace
func (r *run) hookBad() bool {
	for _, e := range r.hookLog {
		if e.class != "" {
			return true
		}
	}
	return false
}

//go:norace
func (r *run) takeHookLog() []hookEvent {
	l := r.hookLog
	r.hookLog = nil
	return l
}

func (r *run) drainHooks() {
	for _, e := range r.takeHookLog() {
		if e.class == "" {
			r.out.Probe(e.msg, 1)
		} else {
			r.viol(e.class, "%s", e.msg)
		}
	}
}

// ---------------------------------------------------------------- C17: balance index

type wout struct {
	op       ledger.OutPoint
	value    uint64
	height   uint32
	coinbase bool
}

func indexedType(pk []byte) int {
	switch {
	case len(pk) == 25 && pk[0] == 0x76 && pk[1] == 0xa9 && pk[2] == 0x14 && pk[23] == 0x88 && pk[24] == 0xac:
		return 0
	case len(pk) == 23 && pk[0] == 0xa9 && pk[1] == 0x14 && pk[22] == 0x87:
		return 1
	case len(pk) == 22 && pk[0] == 0 && pk[1] == 0x14:
		return 2
	case len(pk) == 34 && pk[0] == 0 && pk[1] == 0x20:
		return 3
	case len(pk) == 34 && pk[0] == 0x51 && pk[1] == 0x20:
		return 4
	}
	return -1
}

// compareWallet: for every address ever paid, the index's list and total equal the projection of the unspent set.
func (r *run) compareWallet(when string) {
	if r.bad || !common.Get(&common.WalletON) {
		return
	}
	// the threshold in force: what was configured when the index was last switched on (the node says which)
	minv := common.AllBalMinVal()
	if minv != r.cfg.WalletMinVal && !(r.reloads && minv == r.cfg.WalletMinVal+777_000_000) {
		r.viol("wallet.threshold", "%s: the index applies a minimum value of %d, configured is %d", when, minv, r.cfg.WalletMinVal)
		return
	}
	want := map[string][]wout{}
	var typeCnt, typeRecs [5]int
	var typeVal [5]uint64
	for op, c := range r.model.UTXO() {
		t := indexedType(c.Pk)
		if t < 0 || c.Value < minv {
			continue
		}
		k := string(c.Pk)
		if len(want[k]) == 0 {
			typeRecs[t]++
		}
		want[k] = append(want[k], wout{op, c.Value, c.Height, c.Coinbase})
		typeCnt[t]++
		typeVal[t] += c.Value
	}
	// every script the generator may ever have paid to
	scripts := map[string]bool{}
	for k := range want {
		scripts[k] = true
	}
	for k := range r.everPaid {
		scripts[k] = true
	}
	for k := range scripts {
		r.everPaid[k] = true
		pk := []byte(k)
		ad := btc.NewAddrFromPkScript(pk, r.cfg.Testnet)
		if ad == nil {
			continue
		}
		got := wallet.GetAllUnspent(ad)
		w := want[k]
		gm := map[ledger.OutPoint]*wout{}
		for _, u := range got {
			op := ledger.OutPoint{Hash: u.TxPrevOut.Hash, N: u.TxPrevOut.Vout}
			if gm[op] != nil {
				r.viol("wallet.duplicate", "%s: address %s lists output %s:%d twice", when, ad.String(), hs(op.Hash), op.N)
				return
			}
			gm[op] = &wout{op, u.Value, u.MinedAt, u.Coinbase}
		}
		for _, x := range w {
			g := gm[x.op]
			if g == nil {
				r.viol("wallet.missing", "%s: address %s (script %x): unspent output %s:%d of %d sat (height %d) is in the unspent set but not in the balance index (index lists %d outputs, %d expected; min value %d)", when, ad.String(), pk, hs(x.op.Hash), x.op.N, x.value, x.height, len(got), len(w), minv)
				return
			}
			if g.value != x.value || g.height != x.height || g.coinbase != x.coinbase {
				r.viol("wallet.fields", "%s: address %s: output %s:%d listed with value=%d height=%d coinbase=%v, the unspent set has value=%d height=%d coinbase=%v", when, ad.String(), hs(x.op.Hash), x.op.N, g.value, g.height, g.coinbase, x.value, x.height, x.coinbase)
				return
			}
			delete(gm, x.op)
		}
		for op, g := range gm {
			r.viol("wallet.extra", "%s: address %s: the balance index lists %s:%d (%d sat) which is not (any more) an unspent output paying to it at or above the minimum value %d", when, ad.String(), hs(op.Hash), op.N, g.value, minv)
			return
		}
	}
	// totals and record counts per address type
	var gotCnt, gotRecs [5]int
	var gotVal [5]uint64
	wallet.Browse(func(t int, h wallet.OneAddrIndex, coins *wallet.OneAllAddrBal) {
		gotRecs[t]++
		gotCnt[t] += coins.Count()
		gotVal[t] += coins.Value
	})
	for t := 0; t < 5; t++ {
		if gotRecs[t] != typeRecs[t] || gotCnt[t] != typeCnt[t] || gotVal[t] != typeVal[t] {
			r.viol("wallet.totals", "%s: address type %s: the index holds %d addresses / %d outputs / %d sat in total, the unspent set projects to %d addresses / %d outputs / %d sat (min value %d)", when, wallet.IDX2SYMB[t], gotRecs[t], gotCnt[t], gotVal[t], typeRecs[t], typeCnt[t], typeVal[t], minv)
			return
		}
	}
	r.out.Probe("wallet_compared", 1)
}


// walletSaveRestore is what a shut-down and a start of the client do with the balance index: it is saved to the
// "bal" folder, dropped, and read back (the client builds it from the unspent set when reading back fails).
// In half of the cases the saved files are what a kill in the middle of the save leaves: one of them cut at an
// arbitrary length (often inside its last records) or missing.  A restored index has to be the right one.
func (r *run) walletSaveRestore(o *Op, when string) {
	rg := hx.NewRng(uint64(o.ID)*7919 ^ r.cfg.SchedSeed)
	common.CFG.AllBalances.SaveBalances = true
	wallet.LAST_SAVED_FNAME = ""
	common.Last.Mutex.Lock()
	common.Last.Block = common.BlockChain.LastBlock() // (the client keeps it current after every block)
	common.Last.Mutex.Unlock()
	if er := wallet.SaveBalances(); er != nil {
		r.viol("wallet.save", "%s: saving the balance index failed: %v", when, er)
		return
	}
	dir := filepath.Join(r.dir, wallet.BALANCES_SUBDIR, wallet.LAST_SAVED_FNAME)
	wallet.Disable()
	wallet.VerifFreshProcess()
	what := "saved completely"
	if rg.Chance(0.5) {
		if ents, err := os.ReadDir(dir); err == nil && len(ents) > 0 {
			e := ents[rg.Intn(len(ents))]
			fn := filepath.Join(dir, e.Name())
			if st, err := os.Stat(fn); err == nil {
				switch k := rg.Intn(4); {
				case k == 0:
					os.Remove(fn)
					what = e.Name() + " missing"
				case k == 1 && st.Size() > 1:
					n := st.Size() - 1 - int64(rg.Intn(min(int(st.Size()-1), 60)))
					os.Truncate(fn, n)
					what = fmt.Sprintf("%s cut to %d of %d bytes", e.Name(), n, st.Size())
				case st.Size() > 0:
					n := int64(rg.Intn(int(st.Size())))
					os.Truncate(fn, n)
					what = fmt.Sprintf("%s cut to %d of %d bytes", e.Name(), n, st.Size())
				}
				r.out.Probe("saved_index_damaged_as_by_a_kill", 1)
			}
		}
	}
	if er := wallet.LoadBalances(); er != nil {
		r.out.Probe("saved_index_refused", 1)
		wallet.InitMaps(true) // (a process that starts has empty maps)
		return               // stays off; a later wallet_on builds it from the set
	}
	r.out.Probe("saved_index_restored", 1)
	r.compareWallet(when + " (index restored from the bal folder, " + what + ")")
}
