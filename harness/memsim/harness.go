// Package memsim: deterministic simulation of lib/others/memory (property C20).
package memsim

import (
	"encoding/json"
	"fmt"
	"runtime/debug"
	"sort"
	"testing"
	"unsafe"

	"github.com/piotrnar/gocoin/lib/others/memory"

	"verif/harness/hx"
	"verif/sim/simrt"
	"verif/sim/simsync"
)

const prop = "C20"

type Cfg struct {
	Clients   int     `json:"clients"`
	Verifiers int     `json:"verifiers"` // readers that keep verifying live slices during a defragmentation pass
	YieldP    float64 `json:"yield_p"`
	TimerP    float64 `json:"timer_p"`
	MaxConsec int     `json:"max_consec"`
	SchedSeed uint64  `json:"sched_seed"`
	PCT         int     `json:"pct"`
	PCTSteps    int     `json:"pct_steps"`
}

type Op struct {
	C    int     `json:"c"`
	Op   string  `json:"op"` // malloc free verify burst defrag barrier handover
	Size int     `json:"size,omitempty"`
	Slot int     `json:"slot,omitempty"`
	N    int     `json:"n,omitempty"`    // burst: number of allocations
	Frac float64 `json:"frac,omitempty"` // burst: fraction freed again
	Seed uint64  `json:"seed,omitempty"`
	ID   int     `json:"id"`
}

type H struct{}

func (H) Name() string { return "memsim" }

// data capacities of the size classes as shipped (generator hint for boundary sizes only;
// the oracle never uses them)
var classHint = []int{72, 80, 96, 104, 112, 120, 128, 136, 152, 160, 184, 200, 216, 240, 264, 288, 312, 368, 432, 512, 624, 744, 840, 1016, 1216, 1392, 1600, 1872, 2104, 2464, 2896, 3272, 3992, 4992, 5728, 6808, 8040, 9336, 10536, 12736, 16032, 20088, 24336, 29928, 34832, 41520, 49656, 65112, 86960, 131040}

func genSize(r *hx.Rng) int {
	switch r.Pick(40, 25, 15, 8, 6, 6) {
	case 0: // class boundary -24 .. (the allocator adds a 24-byte slice header)
		c := classHint[r.Intn(len(classHint))]
		return max0(c - 24 + r.Range(-1, 1))
	case 1:
		c := classHint[r.Intn(len(classHint))]
		return max0(c + r.Range(-1, 1))
	case 2:
		return r.Intn(300)
	case 3:
		return []int{0, 1, 23, 24, 25, 47, 48, 49}[r.Intn(8)]
	case 4: // private mapping path
		return r.Range(131000, 200*1024)
	default:
		return r.Intn(140000)
	}
}

func max0(x int) int {
	if x < 0 {
		return 0
	}
	return x
}

func (H) Gen(p string, seed uint64, tier string) *hx.Case {
	r := hx.NewRng(seed)
	cfg := Cfg{Clients: 1 + r.Intn(16), Verifiers: r.Intn(4), MaxConsec: []int{50, 500, 5000}[r.Intn(3)], SchedSeed: r.U64()}
	if r.Chance(0.2) {
		cfg.Clients = 1
	}
	cfg.YieldP = []float64{0, 0.05, 0.2, 0.5}[r.Intn(4)]
	if r.Chance(0.3) {
		cfg.PCT, cfg.PCTSteps = r.Range(1, 4), []int{50, 300, 2000, 10000}[r.Intn(4)]
	}
	if r.Chance(0.2) {
		cfg.TimerP = 0.05
	}
	var ops []json.RawMessage
	id := 0
	add := func(o Op) { id++; o.ID = id; ops = append(ops, hx.J(o)) }
	nphase := r.Range(1, 5)
	wantDefrag := r.Chance(0.45)
	smallOnly := r.Chance(0.5) // concentrate traffic on few classes => contention on one class mutex
	var hot []int
	for i := 0; i < 3; i++ {
		hot = append(hot, genSize(r))
	}
	for ph := 0; ph < nphase; ph++ {
		n := r.Range(5, 150)
		for i := 0; i < n; i++ {
			o := Op{C: r.Intn(cfg.Clients)}
			switch r.Pick(50, 30, 20) {
			case 0:
				o.Op = "malloc"
				if smallOnly {
					o.Size = hot[r.Intn(len(hot))]
				} else {
					o.Size = genSize(r)
				}
			case 1:
				o.Op, o.Slot = "free", r.Intn(1000)
			case 2:
				o.Op, o.Slot = "verify", r.Intn(1000)
			}
			add(o)
		}
		add(Op{Op: "barrier"})
		if r.Chance(0.5) {
			add(Op{Op: "handover", Seed: r.U64()})
		}
		if wantDefrag && (ph == 0 || r.Chance(0.4)) {
			// fragment one or two big classes beyond the defragmentation threshold
			for k := 0; k < 1+r.Intn(2); k++ {
				ci := r.Range(36, len(classHint)-1)
				capGuess := (1<<20 - 48) / (classHint[ci] + 24)
				pages := r.Range(15, 22)
				sz := classHint[ci] - r.Intn(3)
				add(Op{Op: "burst", Size: sz, N: capGuess*pages + r.Intn(capGuess), Frac: 0.8 + 0.17*r.Float(), Seed: r.U64()})
				if r.Chance(0.6) {
					// the last free-list operations before the pass are allocations served from the free list
					add(Op{Op: "refill", Size: sz, N: r.Range(1, 40)})
				}
			}
			add(Op{Op: "defrag"})
		} else if r.Chance(0.15) {
			add(Op{Op: "defrag"}) // below the threshold: must move nothing and harm nothing
		}
	}
	return &hx.Case{Cfg: hx.J(cfg), Ops: ops}
}

// ---------------------------------------------------------------- shadow table
// All shadow-table code is //go:norace and free of builtin maps: the token
// scheduler serialises it, and the race-detector arm must not see harness
// synchronisation between client goroutines.

type rec struct {
	p     *[]byte
	addr  uintptr // address of the slice header = start of the slot
	size  int
	capv  int
	id    uint64
	owner int
	moved int
}

type table struct {
	live []*rec
}

//go:norace
func (t *table) add(r *rec) { t.live = append(t.live, r) }

//go:norace
func (t *table) remove(r *rec) {
	for i, x := range t.live {
		if x == r {
			t.live[i] = t.live[len(t.live)-1]
			t.live = t.live[:len(t.live)-1]
			return
		}
	}
}

//go:norace
func (t *table) byAddr(a uintptr) *rec {
	for _, x := range t.live {
		if x.addr == a {
			return x
		}
	}
	return nil
}

//go:norace
func (t *table) overlap(r *rec) *rec {
	lo, hi := r.addr, r.addr+24+uintptr(r.capv)
	for _, x := range t.live {
		if x == r {
			continue
		}
		xl, xh := x.addr, x.addr+24+uintptr(x.capv)
		if lo < xh && xl < hi {
			return x
		}
	}
	return nil
}

//go:norace
func fill(b []byte, id uint64) {
	w := id*0x9E3779B97F4A7C15 + 0x1234567
	n := len(b) &^ 7
	for i := 0; i < n; i += 8 {
		*(*uint64)(unsafe.Pointer(&b[i])) = w + uint64(i)
	}
	for i := n; i < len(b); i++ {
		b[i] = byte(w>>8) ^ byte(i)
	}
}

//go:norace
func check(b []byte, id uint64) int {
	w := id*0x9E3779B97F4A7C15 + 0x1234567
	n := len(b) &^ 7
	for i := 0; i < n; i += 8 {
		if *(*uint64)(unsafe.Pointer(&b[i])) != w+uint64(i) {
			return i
		}
	}
	for i := n; i < len(b); i++ {
		if b[i] != byte(w>>8)^byte(i) {
			return i
		}
	}
	return -1
}

type sliceHdr struct {
	Data uintptr
	Len  int
	Cap  int
}

type run struct {
	cfg    Cfg
	out    *hx.Outcome
	a      *memory.Allocator
	t      table
	slots  [][]*rec // per client
	nextID uint64
	tblMu  simsync.RWMutex // readers of live slices vs. the relocation callback (as UnspentDB does)
	bad    bool
	stop   bool
}

//go:norace
func (r *run) viol(class, format string, a ...any) {
	r.out.Violate(prop, class, format, a...)
	r.bad = true
}

// verifyRec checks header and contents of one live allocation.
//
//go:norace
func (r *run) verifyRec(x *rec, when string) bool {
	h := (*sliceHdr)(unsafe.Pointer(x.p))
	if uintptr(unsafe.Pointer(x.p)) != x.addr {
		r.viol("table.moved-unannounced", "%s: allocation #%d changed its address without a relocate call", when, x.id)
		return false
	}
	if h.Len != x.size || h.Cap != x.capv || h.Data != x.addr+24 {
		r.viol("live.header", "%s: slice header of live allocation #%d (size %d) was overwritten: len=%d cap=%d data-ptr offset=%d (expected len=%d cap=%d offset 24)", when, x.id, x.size, h.Len, h.Cap, int64(h.Data)-int64(x.addr), x.size, x.capv)
		return false
	}
	if i := check(*x.p, x.id); i >= 0 {
		r.viol("live.contents", "%s: live allocation #%d (size %d, cap %d, moved %d times) no longer holds the bytes written to it: first difference at offset %d", when, x.id, x.size, x.capv, x.moved, i)
		return false
	}
	return true
}

//go:norace
func (r *run) malloc(c int, size int, when string) *rec {
	p := r.a.Malloc(size)
	if p == nil {
		r.viol("malloc.nil", "%s: Malloc(%d) returned nil", when, size)
		return nil
	}
	h := (*sliceHdr)(unsafe.Pointer(p))
	r.nextID++
	x := &rec{p: p, addr: uintptr(unsafe.Pointer(p)), size: size, capv: h.Cap, id: r.nextID, owner: c}
	if len(*p) != size || cap(*p) < size {
		r.viol("malloc.shape", "%s: Malloc(%d) returned a slice with len=%d cap=%d", when, size, len(*p), cap(*p))
		return nil
	}
	if h.Data != x.addr+24 {
		r.viol("malloc.shape", "%s: Malloc(%d): data pointer is not header+24 (offset %d)", when, size, int64(h.Data)-int64(x.addr))
		return nil
	}
	if o := r.t.overlap(x); o != nil {
		r.viol("malloc.overlap", "%s: Malloc(%d) returned [%#x,+%d) which overlaps live allocation #%d [%#x,+%d)", when, size, x.addr, 24+x.capv, o.id, o.addr, 24+o.capv)
		return nil
	}
	fill(*p, x.id)
	r.t.add(x)
	return x
}

//go:norace
func (r *run) free(x *rec, when string) {
	if !r.verifyRec(x, when+" (before Free)") {
		return
	}
	r.t.remove(x)
	r.a.Free(x.p)
}

//go:norace
func (r *run) clientOp(c int, o *Op) {
	if r.bad {
		return
	}
	when := fmt.Sprintf("op#%d client %d", o.ID, c)
	switch o.Op {
	case "malloc":
		if x := r.malloc(c, o.Size, when); x != nil {
			r.slots[c] = append(r.slots[c], x)
		}
	case "free":
		if n := len(r.slots[c]); n > 0 {
			i := o.Slot % n
			x := r.slots[c][i]
			r.slots[c][i] = r.slots[c][n-1]
			r.slots[c] = r.slots[c][:n-1]
			r.free(x, when)
		}
	case "verify":
		if n := len(r.slots[c]); n > 0 {
			r.verifyRec(r.slots[c][o.Slot%n], when)
		}
	}
}

// quiescent checks the whole table and the allocator's own count.
//
//go:norace
func (r *run) quiescent(when string) {
	if r.bad {
		return
	}
	for _, x := range r.t.live {
		if !r.verifyRec(x, when) {
			return
		}
	}
	// pairwise disjointness via sorting
	s := append([]*rec(nil), r.t.live...)
	sort.Slice(s, func(i, j int) bool { return s[i].addr < s[j].addr })
	for i := 1; i < len(s); i++ {
		if s[i-1].addr+24+uintptr(s[i-1].capv) > s[i].addr {
			r.viol("live.overlap", "%s: live allocations #%d [%#x,+%d) and #%d [%#x,+%d) overlap", when, s[i-1].id, s[i-1].addr, 24+s[i-1].capv, s[i].id, s[i].addr, 24+s[i].capv)
			return
		}
	}
	if n := r.a.Allocs.Load(); n != int64(len(r.t.live)) {
		r.viol("count.allocs", "%s: Allocator.Allocs = %d but %d allocations are live", when, n, len(r.t.live))
	}
}

func (H) Run(t *testing.T, c *hx.Case) *hx.Outcome {
	out := &hx.Outcome{}
	var cfg Cfg
	if err := json.Unmarshal(c.Cfg, &cfg); err != nil || cfg.Clients < 1 {
		out.Inconclusive = "bad cfg"
		return out
	}
	var ops []*Op
	for _, raw := range c.Ops {
		var o Op
		if json.Unmarshal(raw, &o) == nil {
			o.C = o.C % cfg.Clients
			ops = append(ops, &o)
		}
	}
	r := &run{cfg: cfg, out: out, slots: make([][]*rec, cfg.Clients)}
	scfg := simrt.Config{Seed: cfg.SchedSeed, YieldP: cfg.YieldP, TimerP: cfg.TimerP, MaxConsec: cfg.MaxConsec, PCT: cfg.PCT, PCTSteps: cfg.PCTSteps, StepBudget: 20_000_000}
	maxLive := 0
	res := simrt.Run(scfg, func() {
		debug.SetPanicOnFault(true)
		r.a = memory.NewAllocator()
		i := 0
		for i < len(ops) && !r.bad {
			j := i
			for j < len(ops) && !isBarrier(ops[j].Op) {
				j++
			}
			phase := ops[i:j]
			if len(phase) > 0 {
				by := make([][]*Op, cfg.Clients)
				nc := 0
				for _, o := range phase {
					if len(by[o.C]) == 0 {
						nc++
					}
					by[o.C] = append(by[o.C], o)
				}
				if nc > 1 {
					out.Probe("concurrent_phases", 1)
				}
				var wg simsync.WaitGroup
				for cid := range by {
					if len(by[cid]) == 0 {
						continue
					}
					cid, cops := cid, by[cid]
					wg.Add(1)
					simrt.Go(func() {
						defer wg.Done()
						debug.SetPanicOnFault(true)
						for _, o := range cops {
							r.clientOp(cid, o)
						}
					})
				}
				wg.Wait()
			}
			if len(r.t.live) > maxLive {
				maxLive = len(r.t.live)
			}
			if j < len(ops) {
				r.barrier(ops[j])
			}
			i = j + 1
		}
		r.quiescent("end of run")
		// free everything: the allocator must come back to zero live allocations
		if !r.bad {
			for _, x := range append([]*rec(nil), r.t.live...) {
				r.free(x, "final free")
				if r.bad {
					break
				}
			}
			if !r.bad {
				if n := r.a.Allocs.Load(); n != 0 {
					r.viol("count.allocs", "after freeing everything Allocator.Allocs = %d", n)
				}
			}
		}
	})
	out.Evals = 1
	{
		var ol []string
		for i, o := range ops {
			if i >= 60 {
				ol = append(ol, fmt.Sprintf("... %d more", len(ops)-i))
				break
			}
			switch o.Op {
			case "malloc":
				ol = append(ol, fmt.Sprintf("c%d malloc %d", o.C, o.Size))
			case "burst":
				ol = append(ol, fmt.Sprintf("burst %d x %d bytes, free %.0f%%", o.N, o.Size, o.Frac*100))
			case "free", "verify":
				ol = append(ol, fmt.Sprintf("c%d %s slot%%%d", o.C, o.Op, o.Slot))
			default:
				ol = append(ol, o.Op)
			}
		}
		out.Sample = map[string]any{"cfg": cfg, "history": ol, "max_live": maxLive}
	}
	if !out.Absorb(prop, "history", &res) {
		return out
	}
	out.StateHash = fmt.Sprintf("%x", hx.Mix(uint64(maxLive), r.nextID))
	return out
}

//go:norace
func (r *run) setStop(v bool) { r.stop = v }

//go:norace
func (r *run) getStop() bool { return r.stop || r.bad }

func isBarrier(op string) bool {
	switch op {
	case "barrier", "burst", "defrag", "handover", "refill":
		return true
	}
	return false
}

//go:norace
func (r *run) barrier(o *Op) {
	when := fmt.Sprintf("op#%d %s", o.ID, o.Op)
	switch o.Op {
	case "barrier":
		r.quiescent(when)
	case "handover":
		// allocations change hands: freed later by another goroutine than the one that allocated
		rng := hx.NewRng(o.Seed)
		var all []*rec
		for c := range r.slots {
			all = append(all, r.slots[c]...)
			r.slots[c] = nil
		}
		for _, x := range all {
			c := rng.Intn(r.cfg.Clients)
			x.owner = c
			r.slots[c] = append(r.slots[c], x)
		}
		r.out.Probe("handover", 1)
	case "burst":
		rng := hx.NewRng(o.Seed)
		var mine []*rec
		for i := 0; i < o.N && !r.bad; i++ {
			if x := r.malloc(0, o.Size, when); x != nil {
				mine = append(mine, x)
			}
		}
		for _, x := range mine {
			if r.bad {
				break
			}
			if rng.Float() < o.Frac {
				r.free(x, when)
			} else {
				r.slots[0] = append(r.slots[0], x)
			}
		}
		r.out.Probe("fragmentation_burst", 1)
		r.quiescent(when)
	case "refill":
		for i := 0; i < o.N && !r.bad; i++ {
			if x := r.malloc(0, o.Size, when); x != nil {
				r.slots[0] = append(r.slots[0], x)
			}
		}
		r.out.Probe("refill_from_free_list", 1)
	case "defrag":
		r.defrag(when)
	}
}

func (r *run) defrag(when string) {
	if r.bad {
		return
	}
	// snapshot of who is where
	before := map[uint64]uintptr{}
	for _, x := range r.t.live {
		before[x.id] = x.addr
	}
	calls := 0
	r.setStop(false)
	var wg simsync.WaitGroup
	for v := 0; v < r.cfg.Verifiers; v++ {
		v := v
		wg.Add(1)
		simrt.Go(func() {
			defer wg.Done()
			debug.SetPanicOnFault(true)
			rng := hx.NewRng(uint64(v) + 77)
			for n := 0; !r.getStop() && n < 100000; n++ {
				r.tblMu.RLock()
				if len(r.t.live) > 0 {
					x := r.t.live[rng.Intn(len(r.t.live))]
					r.verifyRec(x, when+" (reader during defragmentation)")
				}
				r.tblMu.RUnlock()
				simrt.Yield()
			}
		})
	}
	cnt := r.a.DefragAllImproved(func(oldp, newp *[]byte) {
		r.tblMu.Lock()
		defer r.tblMu.Unlock()
		r.relocated(oldp, newp, when, &calls)
	})
	r.setStop(true)
	wg.Wait()
	if r.bad {
		return
	}
	if cnt != calls {
		r.viol("defrag.count", "%s: DefragAllImproved returned %d but the relocation callback ran %d times", when, cnt, calls)
	}
	moved := 0
	for _, x := range r.t.live {
		if x.addr != before[x.id] {
			moved++
		}
	}
	if moved != calls {
		r.viol("defrag.once", "%s: %d allocations changed address but relocate was called %d times", when, moved, calls)
	}
	if calls > 0 {
		r.out.Probe("defrag_moved_records", int64(calls))
		r.out.Probe("defrag_passes_that_moved", 1)
		if r.cfg.Verifiers > 0 {
			r.out.Probe("readers_during_defrag", 1)
		}
	} else {
		r.out.Probe("defrag_passes_noop", 1)
	}
	r.quiescent(when + " (after defragmentation)")
}

//go:norace
func (r *run) relocated(oldp, newp *[]byte, when string, calls *int) {
	*calls++
	if r.bad {
		return
	}
	x := r.t.byAddr(uintptr(unsafe.Pointer(oldp)))
	if x == nil {
		r.viol("defrag.relocate-unknown", "%s: relocate called for %#x which is not a live allocation (or was already moved in this pass)", when, uintptr(unsafe.Pointer(oldp)))
		return
	}
	nh := (*sliceHdr)(unsafe.Pointer(newp))
	na := uintptr(unsafe.Pointer(newp))
	if nh.Len != x.size || nh.Cap < x.size || nh.Data != na+24 {
		r.viol("defrag.relocate-shape", "%s: relocate(#%d): new slice has len=%d cap=%d data offset %d, old had len=%d cap=%d", when, x.id, nh.Len, nh.Cap, int64(nh.Data)-int64(na), x.size, x.capv)
		return
	}
	if i := check(*newp, x.id); i >= 0 {
		r.viol("defrag.relocate-contents", "%s: relocate(#%d): the new location does not hold the old contents (first difference at offset %d of %d)", when, x.id, i, x.size)
		return
	}
	old := *x
	x.p, x.addr, x.capv = newp, na, nh.Cap
	x.moved++
	if o := r.t.overlap(x); o != nil && o.addr != old.addr {
		r.viol("defrag.relocate-overlap", "%s: relocate(#%d): new extent [%#x,+%d) overlaps live allocation #%d [%#x,+%d)", when, x.id, x.addr, 24+x.capv, o.id, o.addr, 24+o.capv)
	}
}
