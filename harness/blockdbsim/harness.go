// Package blockdbsim: deterministic simulation of chain.BlockDB (property C16).
package blockdbsim

import (
	"bytes"
	"encoding/binary"
	"encoding/json"
	"fmt"
	"os"
	"path/filepath"
	"sort"
	"strings"
	"testing"
	"time"

	"github.com/anishathalye/porcupine"
	"github.com/piotrnar/gocoin/lib/btc"
	"github.com/piotrnar/gocoin/lib/chain"

	"verif/harness/hx"
	"verif/sim/simos"
	"verif/sim/simrt"
	"verif/sim/simsync"
)

const prop = "C16"

type BlockSpec struct {
	Size    int    `json:"size"`
	Class   string `json:"class"` // zeros random repeat literal mixed
	Txs     uint32 `json:"txs"`
	Height  uint32 `json:"height"`
	Trusted bool   `json:"trusted"`
}

type Cfg struct {
	Blocks      []BlockSpec `json:"blocks"`
	Compress    bool        `json:"compress"`
	Cache       int         `json:"cache"`
	MaxFileSize uint64      `json:"max_file_size"`
	Keep        uint32      `json:"keep"`
	Backup      bool        `json:"backup"`
	Clients     int         `json:"clients"`
	YieldP      float64     `json:"yield_p"`
	TimerP      float64     `json:"timer_p"`
	MaxConsec   int         `json:"max_consec"`
	SchedSeed   uint64      `json:"sched_seed"`
	PCT         int     `json:"pct"`
	PCTSteps    int     `json:"pct_steps"`
	ChildFirstP float64 `json:"child_first_p,omitempty"`
	DataSeed    uint64      `json:"data_seed"`
}

type Op struct {
	C    int    `json:"c"`
	Op   string `json:"op"` // add readd get length trust invalid idle reopen tick barrier
	B    int    `json:"b"`
	Mode int    `json:"mode,omitempty"` // get: 0 BlockGet 1 BlockGetExt 2 BlockGetInternal(do_not_cache); length: 1 = decode
	Ms   int    `json:"ms,omitempty"`
	ID   int    `json:"id"`
}

type H struct{}

func (H) Name() string { return "blockdbsim" }

func (H) Gen(p string, seed uint64, tier string) *hx.Case {
	r := hx.NewRng(seed)
	cfg := Cfg{
		Compress:  r.Chance(0.5),
		Cache:     r.Range(1, 8),
		Keep:      uint32(r.Intn(4)),
		Backup:    r.Chance(0.3),
		Clients:   1,
		MaxConsec: []int{50, 500, 5000}[r.Intn(3)],
		SchedSeed: r.U64(),
		DataSeed:  r.U64(),
	}
	if r.Chance(0.8) {
		cfg.MaxFileSize = uint64([]int{4 << 10, 16 << 10, 64 << 10, 256 << 10, 1 << 20}[r.Intn(5)])
	}
	if r.Chance(0.5) {
		cfg.Clients = 2 + r.Intn(3)
	}
	cfg.YieldP = []float64{0, 0.05, 0.2, 0.5}[r.Intn(4)]
	if r.Chance(0.3) {
		cfg.PCT, cfg.PCTSteps = r.Range(1, 4), []int{50, 300, 2000, 10000}[r.Intn(4)]
	}
	if r.Chance(0.25) {
		cfg.ChildFirstP = []float64{0.2, 0.6, 1}[r.Intn(3)]
	}
	if r.Chance(0.3) {
		cfg.TimerP = 0.1
	}
	nb := r.Range(2, 40)
	if r.Chance(0.3) {
		nb = r.Range(2, 6)
	}
	big := tier == "thorough" && r.Chance(0.05)
	flushBig := r.Chance(0.01) || (tier == "thorough" && r.Chance(0.03))
	for i := 0; i < nb; i++ {
		b := BlockSpec{Class: []string{"zeros", "random", "repeat", "literal", "mixed"}[r.Intn(5)], Txs: uint32(r.Range(1, 5000)), Height: uint32(r.Intn(1000)), Trusted: r.Chance(0.3)}
		switch r.Pick(10, 30, 30, 20, 8, 2) {
		case 0:
			b.Size = 81
		case 1:
			b.Size = r.Range(81, 400)
		case 2:
			b.Size = r.Range(400, 5000)
		case 3:
			b.Size = r.Range(5000, 70000)
		case 4:
			b.Size = r.Range(65000, 200000)
		case 5:
			b.Size = r.Range(200000, 1<<20)
		}
		if r.Chance(0.12) {
			// around the snappy block size: k*64 KiB -20..+20, mostly incompressible or with an incompressible tail
			b.Size = (1+r.Intn(3))*65536 - 20 + r.Intn(41)
			b.Class = []string{"random", "random", "mixed", "repeat"}[r.Intn(4)]
		}
		if big && i == 0 {
			b.Size = 4000000
		}
		if flushBig && i < 5 {
			b.Size = 3500000 // five of them exceed the 16 MB flush threshold
			b.Class = "repeat"
		}
		cfg.Blocks = append(cfg.Blocks, b)
	}
	nops := r.Range(5, 120)
	var ops []json.RawMessage
	added := 0
	for i := 0; i < nops; i++ {
		o := Op{ID: i + 1}
		if cfg.Clients > 1 && r.Chance(0.55) {
			o.C = 1 + r.Intn(cfg.Clients-1)
		}
		if o.C != 0 {
			// readers
			o.B = r.Intn(nb)
			if r.Chance(0.8) {
				o.Op, o.Mode = "get", r.Intn(3)
			} else {
				o.Op, o.Mode = "length", r.Intn(2)
			}
		} else {
			switch r.Pick(34, 4, 18, 5, 5, 5, 10, 7, 6, 6) {
			case 0:
				o.Op = "add"
				if added < nb && r.Chance(0.85) {
					o.B = added
					added++
				} else {
					o.B = r.Intn(nb)
				}
			case 1:
				o.Op, o.B = "readd", r.Intn(nb)
			case 2:
				o.Op, o.B, o.Mode = "get", r.Intn(nb), r.Intn(3)
			case 3:
				o.Op, o.B, o.Mode = "length", r.Intn(nb), r.Intn(2)
			case 4:
				o.Op, o.B = "trust", r.Intn(nb)
			case 5:
				o.Op, o.B = "invalid", r.Intn(nb)
				if added > 0 && r.Chance(0.5) {
					// the newest blocks are the ones a failed reorganisation invalidates
					k := 3
					if added < k {
						k = added
					}
					o.B = added - 1 - r.Intn(k)
				}
			case 6:
				o.Op = "idle"
			case 7:
				o.Op = "reopen"
			case 8:
				o.Op, o.Ms = "tick", r.Range(1, 2000)
			case 9:
				o.Op = "barrier"
			}
		}
		ops = append(ops, hx.J(o))
		if o.Op == "invalid" && r.Chance(0.4) {
			// the same block arrives again (peers resend what a failed reorganisation has dropped)
			ops = append(ops, hx.J(Op{ID: 1000 + i, Op: "add", B: o.B}))
		}
	}
	if added > 1 && r.Chance(0.15) {
		// everything in the newest data file(s) turns out invalid, then the store is reopened and appended to
		id := 5000
		add := func(o Op) { id++; o.ID = id; ops = append(ops, hx.J(o)) }
		add(Op{Op: "idle"})
		k := r.Range(1, 4)
		for j := 0; j < k && j < added-1; j++ {
			add(Op{Op: "invalid", B: added - 1 - j})
		}
		add(Op{Op: "reopen"})
		if added < nb {
			add(Op{Op: "add", B: added})
		}
		add(Op{Op: "idle"})
	}
	return &hx.Case{Cfg: hx.J(cfg), Ops: ops}
}

func blockData(seed uint64, idx int, b BlockSpec) []byte {
	r := hx.NewRng(seed ^ uint64(idx+1)*0x9E3779B97F4A7C15)
	n := b.Size
	if n < 81 {
		n = 81
	}
	d := make([]byte, n)
	switch b.Class {
	case "zeros":
	case "random":
		copy(d, r.Bytes(n))
	case "repeat":
		pat := r.Bytes(r.Range(1, 300))
		for i := range d {
			d[i] = pat[i%len(pat)]
		}
	case "literal":
		// > 64 KiB literal runs when big enough, then a repeat
		copy(d, r.Bytes(n*3/4))
	default:
		for i := 0; i < n; {
			l := r.Range(1, 2000)
			if i+l > n {
				l = n - i
			}
			if r.Chance(0.5) {
				copy(d[i:i+l], r.Bytes(l))
			} else {
				c := byte(r.Intn(256))
				for j := i; j < i+l; j++ {
					d[j] = c
				}
			}
			i += l
		}
	}
	// unique 80-byte header
	copy(d[:80], r.Bytes(80))
	binary.LittleEndian.PutUint32(d[0:4], uint32(idx))
	return d
}

type mblock struct {
	raw      []byte
	hash     *btc.Uint256
	spec     BlockSpec
	added    bool
	trusted  bool
	invalid  bool
	flushed  bool  // index record seen in the effect log
	fileIdx  int64 // data file index it was written to
	addPhase int
	invPhase int
	trPhase  int
	invQueued bool // marked invalid while still queued (the store dropped it)
	prevRaw   [][]byte // the bodies handed in before the "other body" re-adds of phase rawPhase:
	rawPhase  int      // a read racing with them may still return an older body
}

// is d what a read may return for this block (concurrent = it raced with writer ops of phase ph)?
func (b *mblock) bodyOK(d []byte, concurrent bool, ph int) bool {
	if bytes.Equal(d, b.raw) {
		return true
	}
	if concurrent && b.rawPhase == ph {
		for _, p := range b.prevRaw {
			if bytes.Equal(d, p) {
				return true
			}
		}
	}
	return false
}

type readRec struct {
	o     *Op
	b     int
	data  []byte
	trust bool
	err   error
	ln    uint32
	call  uint64
	ret   uint64
}

type run struct {
	cfg     Cfg
	out     *hx.Outcome
	dir     string
	db      *chain.BlockDB
	bl      []*mblock
	byHash  map[[32]byte]int
	newest  int64 // newest data file index observed
	effSeen int
	curFile int64
	phase   int
	order   []int // index-record order (blocks as written)
	hist    []porcupine.Operation
}

func (r *run) viol(class, format string, a ...any) { r.out.Violate(prop, class, format, a...) }

func datIdx(name string) (int64, bool) {
	b := filepath.Base(name)
	if b == "blockchain.dat" {
		return 0, true
	}
	var v int64
	if strings.HasPrefix(b, "blockchain-") && strings.HasSuffix(b, ".dat") {
		if _, err := fmt.Sscanf(b, "blockchain-%08x.dat", &v); err == nil {
			return v, true
		}
	}
	if strings.HasPrefix(b, "bl") && strings.HasSuffix(b, ".dat") {
		if _, err := fmt.Sscanf(b, "bl%08d.dat", &v); err == nil {
			return v, true
		}
	}
	return 0, false
}

// scan consumes new file-system effects: which block went to which data file.
func (r *run) scan() {
	log := simos.Snapshot()
	for ; r.effSeen < len(log); r.effSeen++ {
		e := &log[r.effSeen]
		if os.Getenv("VSIM_DEBUG") != "" {
			fmt.Printf("EFF %d %s %s %s off=%d len=%d\n", e.Seq, e.Kind, e.Path, e.Path2, e.Off, len(e.Data))
		}
		if strings.Contains(e.Path, "oldat") {
			continue
		}
		switch e.Kind {
		case simos.KCreate:
			if i, ok := datIdx(e.Path); ok {
				if i > r.newest {
					r.newest = i
					r.out.Probe("datfile_rollover", 1)
				}
			}
		case simos.KWrite:
			if i, ok := datIdx(e.Path); ok {
				r.curFile = i
			} else if filepath.Base(e.Path) == "blockchain.new" && len(e.Data) == 136 {
				h := btc.NewSha2Hash(e.Data[56:136])
				if bi, ok := r.byHash[h.Hash]; ok {
					b := r.bl[bi]
					b.flushed = true
					b.fileIdx = r.curFile
					r.order = append(r.order, bi)
				}
			}
		case simos.KRemove:
			if _, ok := datIdx(e.Path); ok {
				r.out.Probe("datfile_removed", 1)
			}
		case simos.KRename:
			if _, ok := datIdx(e.Path); ok {
				r.out.Probe("datfile_renamed_or_backed_up", 1)
			}
		}
	}
}

// mayFail reports whether a read of block b may legitimately fail now.
func (r *run) mayFail(b *mblock) (bool, string) {
	if !b.added {
		return true, "never added"
	}
	if b.invalid {
		return true, "marked invalid"
	}
	if r.cfg.Keep != 0 && !r.cfg.Backup && b.flushed && b.fileIdx < r.newest-int64(r.cfg.Keep) {
		return true, "out of retention"
	}
	return false, ""
}

func (r *run) open() {
	r.db = chain.NewBlockDBExt(r.dir, &chain.BlockDBOpts{MaxCachedBlocks: r.cfg.Cache, MaxDataFileSize: r.cfg.MaxFileSize,
		DataFilesKeep: r.cfg.Keep, DataFilesBackup: r.cfg.Backup, CompressOnDisk: r.cfg.Compress})
}

type walked struct {
	hash          [32]byte
	height, l, tx uint32
}

func (r *run) load() []walked {
	var ws []walked
	r.db.LoadBlockIndex(nil, func(ch *chain.Chain, hash, hdr []byte, height, blen, txs uint32) {
		var w walked
		copy(w.hash[:], hash)
		w.height, w.l, w.tx = height, blen, txs
		ws = append(ws, w)
	})
	return ws
}

func (r *run) readOp(o *Op) readRec {
	b := r.bl[o.B%len(r.bl)]
	rec := readRec{o: o, b: o.B % len(r.bl)}
	rec.call = simrt.Stamp()
	if o.Op == "get" {
		switch o.Mode {
		case 0:
			d, t, e := r.db.BlockGet(b.hash)
			rec.data, rec.trust, rec.err = append([]byte(nil), d...), t, e
		case 1:
			cr, t, e := r.db.BlockGetExt(b.hash)
			if cr != nil {
				rec.data = append([]byte(nil), cr.Data...)
			}
			rec.trust, rec.err = t, e
		default:
			cr, t, e := r.db.BlockGetInternal(b.hash, true)
			if cr != nil {
				rec.data = append([]byte(nil), cr.Data...)
			}
			rec.trust, rec.err = t, e
		}
	} else {
		rec.ln, rec.err = r.db.BlockLength(b.hash, o.Mode == 1)
	}
	rec.ret = simrt.Stamp()
	return rec
}

// judge a read given the model state; concurrent = the read raced with writer ops of the same phase.
func (r *run) judge(rec *readRec, concurrent bool) {
	b := r.bl[rec.b]
	o := rec.o
	if o.Op == "get" {
		if rec.err == nil && rec.data != nil {
			if !b.bodyOK(rec.data, concurrent, r.phase) {
				r.viol("live.get.bytes", "op#%d get(block %d, mode %d) returned %d bytes that differ from the %d bytes stored (first difference at %d)", o.ID, rec.b, o.Mode, len(rec.data), len(b.raw), firstDiff(rec.data, b.raw))
				return
			}
			if !b.invalid && !(concurrent && (b.addPhase == r.phase)) && b.added && rec.trust != b.trusted {
				// trusted flag may lag only while a concurrent writer changes it in this phase
				if !(concurrent && b.trustPhaseIs(r.phase)) {
					r.viol("live.get.trusted", "op#%d get(block %d) reports trusted=%v, model says %v", o.ID, rec.b, rec.trust, b.trusted)
				}
			}
			return
		}
		// failed (or nil data)
		if may, _ := r.mayFail(b); may {
			return
		}
		if concurrent && (b.addPhase == r.phase || b.invPhase == r.phase) {
			return
		}
		r.viol("live.get.fail", "op#%d get(block %d, mode %d) failed (%v) although the block was stored (flushed=%v, file %d, newest file %d, keep %d), is not invalid and is within retention", o.ID, rec.b, o.Mode, rec.err, b.flushed, b.fileIdx, r.newest, r.cfg.Keep)
		return
	}
	// length
	if rec.err != nil {
		if may, _ := r.mayFail(b); may || (concurrent && b.addPhase == r.phase) {
			return
		}
		r.viol("live.length.fail", "op#%d length(block %d, decode=%v) failed: %v", o.ID, rec.b, o.Mode == 1, rec.err)
		return
	}
	if !b.added || b.invalid || (concurrent && (b.addPhase == r.phase || b.invPhase == r.phase)) {
		return
	}
	if o.Mode == 1 && b.flushed && rec.ln != uint32(len(b.raw)) {
		if may, _ := r.mayFail(b); !may {
			r.viol("live.length.value", "op#%d BlockLength(block %d, decode=true) = %d, the stored block has %d bytes", o.ID, rec.b, rec.ln, len(b.raw))
		}
	}
}

func (b *mblock) trustPhaseIs(p int) bool { return b.trPhase == p }

func firstDiff(a, b []byte) int {
	n := len(a)
	if len(b) < n {
		n = len(b)
	}
	for i := 0; i < n; i++ {
		if a[i] != b[i] {
			return i
		}
	}
	return n
}

func (r *run) writerOp(o *Op) {
	b := r.bl[o.B%len(r.bl)]
	bi := o.B % len(r.bl)
	switch o.Op {
	case "add", "readd":
		if b.invalid {
			if !b.invQueued || o.Op == "readd" {
				return // re-adding a block whose WRITTEN record was flagged invalid is outside the property
			}
			// it was dropped while still queued ("never write it"): the store has forgotten it, this is a fresh add
			b.invalid, b.added, b.trusted, b.invQueued = false, false, false, false
			b.addPhase, b.invPhase = -1, -1
			r.out.Probe("readd_after_invalid_while_queued", 1)
			if (uint64(o.ID)^r.cfg.SchedSeed)%2 == 0 && len(b.raw) > 80 {
				// ... and what comes now under that hash are other bytes (a block's hash covers its header only:
				// the copy that was refused had a malleated body)
				nb := make([]byte, 0, len(b.raw)+1)
				nb = append(nb, b.raw[:80]...)
				for i := len(b.raw) - 1; i >= 80; i-- {
					nb = append(nb, b.raw[i]^0x35)
				}
				nb = append(nb, 0x5a)
				if b.rawPhase != r.phase {
					b.prevRaw = nil
				}
				b.prevRaw, b.rawPhase = append(b.prevRaw, b.raw), r.phase
				b.raw = nb
				r.out.Probe("readd_after_invalid_while_queued_with_another_body", 1)
			}
		}
		blk := &btc.Block{Raw: b.raw, Hash: b.hash, TxCount: int(b.spec.Txs)}
		tr := b.spec.Trusted
		if o.Op == "readd" {
			if !b.added {
				return
			}
			tr = true
		}
		if tr {
			blk.Trusted.Set()
		}
		call := simrt.Stamp()
		r.db.BlockAdd(b.spec.Height, blk)
		ret := simrt.Stamp()
		r.hist = append(r.hist, porcupine.Operation{ClientId: 0, Input: hin{"add", bi}, Call: int64(call), Output: hout{}, Return: int64(ret)})
		if !b.added {
			b.added, b.addPhase = true, r.phase
			b.trusted = tr
			r.out.Probe("blocks_added", 1)
		} else if tr && !b.trusted {
			b.trusted, b.trPhase = true, r.phase
			r.out.Probe("readd_as_trusted", 1)
		}
	case "trust":
		if !b.added || b.invalid {
			return
		}
		r.db.BlockTrusted(b.hash.Hash[:])
		if !b.trusted {
			b.trusted, b.trPhase = true, r.phase
		}
	case "invalid":
		if !b.added || b.trusted || b.invalid {
			return // BlockInvalid on a trusted block panics by design
		}
		call := simrt.Stamp()
		r.db.BlockInvalid(b.hash.Hash[:])
		ret := simrt.Stamp()
		r.hist = append(r.hist, porcupine.Operation{ClientId: 0, Input: hin{"invalid", bi}, Call: int64(call), Output: hout{}, Return: int64(ret)})
		b.invalid, b.invPhase = true, r.phase
		b.invQueued = !b.flushed
		if b.flushed {
			r.out.Probe("invalid_written_block", 1)
		} else {
			r.out.Probe("invalid_queued_block", 1)
		}
	case "idle":
		r.db.Idle()
	case "tick":
		simrt.Sleep(time.Duration(o.Ms) * time.Millisecond)
	}
	r.scan()
}

type hin struct {
	Op string
	B  int
}
type hout struct {
	OK   bool
	Good bool
}

func isBarrier(op string) bool { return op == "reopen" || op == "barrier" }

func (r *run) reopen(what string) {
	r.db.Close()
	r.scan()
	r.open()
	ws := r.load()
	r.scan()
	// expected: all added, non-invalid blocks, in index order
	var want []int
	for _, bi := range r.order {
		if !r.bl[bi].invalid {
			want = append(want, bi)
		}
	}
	// every added non-invalid block must have been flushed by Close
	for bi, b := range r.bl {
		if b.added && !b.invalid && !b.flushed {
			r.viol("reopen.not-stored", "%s: block %d was added but no index record was ever written for it", what, bi)
		}
	}
	if len(ws) != len(want) {
		var got []int
		for _, w := range ws {
			if bi, ok := r.byHash[w.hash]; ok {
				got = append(got, bi)
			} else {
				got = append(got, -1)
			}
		}
		r.viol("reopen.index-list", "%s: the index lists %d blocks %v, expected the %d stored non-invalid blocks %v", what, len(ws), got, len(want), want)
		return
	}
	for i, w := range ws {
		bi, ok := r.byHash[w.hash]
		if !ok || bi != want[i] {
			r.viol("reopen.index-list", "%s: index entry %d is block %d, expected block %d", what, i, bi, want[i])
			return
		}
		b := r.bl[bi]
		if w.height != b.spec.Height || w.l != uint32(len(b.raw)) || w.tx != b.spec.Txs {
			r.viol("reopen.index-fields", "%s: block %d listed with height=%d size=%d txs=%d, stored with height=%d size=%d txs=%d", what, bi, w.height, w.l, w.tx, b.spec.Height, len(b.raw), b.spec.Txs)
		}
	}
	for _, bi := range want {
		b := r.bl[bi]
		d, tr, e := r.db.BlockGet(b.hash)
		if e != nil || d == nil {
			if may, _ := r.mayFail(b); !may {
				r.viol("reopen.get.fail", "%s: block %d cannot be read after reopen: %v (file %d, newest %d, keep %d)", what, bi, e, b.fileIdx, r.newest, r.cfg.Keep)
			}
			continue
		}
		if !bytes.Equal(d, b.raw) {
			r.viol("reopen.get.bytes", "%s: block %d reads back %d bytes differing from the %d stored (first difference at %d)", what, bi, len(d), len(b.raw), firstDiff(d, b.raw))
		}
		if tr != b.trusted {
			r.viol("reopen.get.trusted", "%s: block %d has trusted=%v after reopen, model says %v", what, bi, tr, b.trusted)
		}
	}
	r.out.Probe("reopen", 1)
}

func (H) Run(t *testing.T, c *hx.Case) *hx.Outcome {
	out := &hx.Outcome{}
	var cfg Cfg
	if err := json.Unmarshal(c.Cfg, &cfg); err != nil || len(cfg.Blocks) == 0 {
		out.Inconclusive = "bad cfg"
		return out
	}
	var ops []*Op
	for _, raw := range c.Ops {
		var o Op
		if json.Unmarshal(raw, &o) == nil {
			if cfg.Clients <= 1 {
				o.C = 0
			}
			if o.C != 0 && o.Op != "get" && o.Op != "length" {
				o.C = 0
			}
			ops = append(ops, &o)
		}
	}
	root := hx.RunDir("bdb", c.Seed)
	defer os.RemoveAll(root)
	dir := filepath.Join(root, "live")
	os.MkdirAll(dir, 0770)
	simos.Reset(dir)
	r := &run{cfg: cfg, out: out, dir: dir + "/blocks", byHash: map[[32]byte]int{}}
	for i, bs := range cfg.Blocks {
		raw := blockData(cfg.DataSeed, i, bs)
		h := btc.NewSha2Hash(raw[:80])
		r.bl = append(r.bl, &mblock{raw: raw, hash: h, spec: bs, addPhase: -1, invPhase: -1, trPhase: -1})
		r.byHash[h.Hash] = i
	}
	scfg := simrt.Config{Seed: cfg.SchedSeed, YieldP: cfg.YieldP, TimerP: cfg.TimerP, MaxConsec: cfg.MaxConsec, PCT: cfg.PCT, PCTSteps: cfg.PCTSteps, ChildFirstP: cfg.ChildFirstP, StepBudget: 5_000_000}
	res := simrt.Run(scfg, func() {
		simrt.Sleep(time.Hour) // leave the zero time
		r.open()
		r.load()
		i := 0
		for i < len(ops) {
			j := i
			for j < len(ops) && !isBarrier(ops[j].Op) {
				j++
			}
			phase := ops[i:j]
			r.phase++
			if len(phase) > 0 {
				clients := map[int][]*Op{}
				for _, o := range phase {
					clients[o.C] = append(clients[o.C], o)
				}
				if len(clients) <= 1 {
					for _, o := range phase {
						if o.Op == "get" || o.Op == "length" {
							rec := r.readOp(o)
							r.scan()
							r.judge(&rec, false)
							r.recordRead(&rec, o.C)
						} else {
							r.writerOp(o)
						}
					}
				} else {
					out.Probe("concurrent_phases", 1)
					var wg simsync.WaitGroup
					ids := make([]int, 0, len(clients))
					for cid := range clients {
						ids = append(ids, cid)
					}
					sort.Ints(ids)
					results := make([][]readRec, len(ids))
					for n, cid := range ids {
						cops := clients[cid]
						n := n
						wg.Add(1)
						if cid == 0 {
							simrt.Go(func() {
								defer wg.Done()
								for _, o := range cops {
									if o.Op == "get" || o.Op == "length" {
										results[n] = append(results[n], r.readOp(o))
									} else {
										r.writerOp(o)
									}
								}
							})
						} else {
							simrt.Go(func() {
								defer wg.Done()
								for _, o := range cops {
									results[n] = append(results[n], r.readOp(o))
								}
							})
						}
					}
					wg.Wait()
					r.scan()
					for n := range results {
						for k := range results[n] {
							r.judge(&results[n][k], true)
							r.recordRead(&results[n][k], ids[n])
						}
					}
				}
			}
			if j < len(ops) && ops[j].Op == "reopen" {
				r.reopen(fmt.Sprintf("op#%d close + reopen", ops[j].ID))
			}
			i = j + 1
		}
		r.phase++
		r.reopen("final close + reopen")
		// appending continues without overwriting: add one more block, close, reopen, everything still there
		extra := BlockSpec{Size: 300, Class: "random", Txs: 7, Height: 4242}
		raw := blockData(cfg.DataSeed^0xABCDEF, 9999, extra)
		h := btc.NewSha2Hash(raw[:80])
		r.bl = append(r.bl, &mblock{raw: raw, hash: h, spec: extra, addPhase: -1, invPhase: -1, trPhase: -1})
		r.byHash[h.Hash] = len(r.bl) - 1
		r.writerOp(&Op{Op: "add", B: len(r.bl) - 1, ID: 100000})
		r.phase++
		r.reopen("append after reopen, close + reopen")
		r.db.Close()
	})
	out.Evals = 1
	{
		var ol []string
		for i, o := range ops {
			if i >= 50 {
				ol = append(ol, fmt.Sprintf("... %d more", len(ops)-i))
				break
			}
			ol = append(ol, fmt.Sprintf("c%d %s b%d m%d", o.C, o.Op, o.B%len(cfg.Blocks), o.Mode))
		}
		sc := cfg
		sc.Blocks = nil
		var sizes []int
		for _, b := range cfg.Blocks {
			sizes = append(sizes, b.Size)
		}
		out.Sample = map[string]any{"cfg": sc, "block_sizes": sizes, "history": ol, "fs_effects": simos.LogLen()}
	}
	if !out.Absorb(prop, "history", &res) {
		return out
	}
	h := uint64(0)
	for _, b := range r.bl {
		h = hx.HashBytes(h, []byte{b2(b.added), b2(b.trusted), b2(b.invalid), b2(b.flushed), byte(b.fileIdx)})
	}
	out.StateHash = fmt.Sprintf("%x", h)
	if cfg.Clients > 1 && len(r.hist) > 0 {
		hist := r.hist
		out.Post = func(o *hx.Outcome) { checkLinearizable(o, hist) }
	}
	return out
}

func b2(b bool) byte {
	if b {
		return 1
	}
	return 0
}

func (r *run) recordRead(rec *readRec, c int) {
	if rec.o.Op != "get" {
		return
	}
	b := r.bl[rec.b]
	ok := rec.err == nil && rec.data != nil
	r.hist = append(r.hist, porcupine.Operation{ClientId: c, Input: hin{"get", rec.b}, Call: int64(rec.call),
		Output: hout{OK: ok, Good: ok && b.bodyOK(rec.data, true, r.phase)}, Return: int64(rec.ret)})
}

// per-block state machine: 0 absent, 1 present, 2 invalid (anything goes)
func checkLinearizable(o *hx.Outcome, hist []porcupine.Operation) {
	if len(hist) > 400 {
		hist = hist[:400]
	}
	mdl := porcupine.Model{
		Partition: func(h []porcupine.Operation) [][]porcupine.Operation {
			by := map[int][]porcupine.Operation{}
			var ks []int
			for _, op := range h {
				k := op.Input.(hin).B
				if _, ok := by[k]; !ok {
					ks = append(ks, k)
				}
				by[k] = append(by[k], op)
			}
			sort.Ints(ks)
			var res [][]porcupine.Operation
			for _, k := range ks {
				res = append(res, by[k])
			}
			return res
		},
		Init: func() interface{} { return 0 },
		Step: func(state, input, output interface{}) (bool, interface{}) {
			st := state.(int)
			in := input.(hin)
			switch in.Op {
			case "add":
				if st == 0 {
					return true, 1
				}
				return true, st
			case "invalid":
				return true, 2
			default:
				got := output.(hout)
				if got.OK && !got.Good {
					return false, st // wrong bytes are never legal
				}
				switch st {
				case 0:
					return !got.OK, st
				case 1:
					// a failure may be a retention miss: judged by the retention oracle, not here
					return true, st
				}
				return true, st
			}
		},
		Equal: func(a, b interface{}) bool { return a.(int) == b.(int) },
	}
	res := porcupine.CheckOperationsTimeout(mdl, hist, 20*time.Second)
	if o.Porcupine == nil {
		o.Porcupine = map[string]int64{}
	}
	switch res {
	case porcupine.Ok:
		o.Porcupine["ok"]++
	case porcupine.Illegal:
		o.Porcupine["illegal"]++
		o.Violate(prop, "live.linearizability", "the concurrent history of %d add/invalid/get operations is not linearizable against the per-block model (a get succeeded for a block never added, or returned wrong bytes)", len(hist))
	default:
		o.Porcupine["unknown"]++
	}
}
