// Package hx is the harness kit: the child-process side of the vcheck driver
// protocol, the case/outcome types, and the seeded generator PRNG.
package hx

import (
	"encoding/json"
	"fmt"
	"os"
	"runtime"
	"strconv"
	"strings"
	"testing"
	"testing/synctest"
	"time"

	"verif/sim/simrt"
)

// Violation of a property found by an oracle.
type Violation struct {
	Property string `json:"property"`
	Class    string `json:"class"` // oracle id + clause; the unit of known-finding matching and of shrinking
	Msg      string `json:"msg"`
}

// Case is one fully explicit simulated execution: configuration + operation
// list + scheduler seed.  Replay is a pure function of (Case, code).
type Case struct {
	Harness string            `json:"harness"`
	Prop    string            `json:"prop"`
	Tier    string            `json:"tier"`
	Seed    uint64            `json:"seed"`
	Cfg     json.RawMessage   `json:"cfg"`
	Ops     []json.RawMessage `json:"ops"`
}

// Outcome of running one case.
type Outcome struct {
	Seed         uint64           `json:"seed"`
	Violations   []Violation      `json:"violations,omitempty"`
	Faults       map[string]int64 `json:"faults,omitempty"`
	Probes       map[string]int64 `json:"probes,omitempty"`
	TraceHash    string           `json:"trace_hash"`
	StateHash    string           `json:"state_hash"`
	Steps        int              `json:"steps"`
	Switches     int              `json:"switches"`
	SimMs        int64            `json:"sim_ms"`
	Evals        int              `json:"evals"`
	Inconclusive string           `json:"inconclusive,omitempty"`
	Sample       any              `json:"sample,omitempty"`
	Dirty        bool             `json:"dirty,omitempty"` // process state must not be reused
	Porcupine    map[string]int64 `json:"porcupine,omitempty"`
	// Post, if set, runs after the bubble has been left (real clock, real
	// goroutines): used for porcupine checks of the recorded history.
	Post func(o *Outcome) `json:"-"`
}

func (o *Outcome) Fault(k string, n int64) {
	if o.Faults == nil {
		o.Faults = map[string]int64{}
	}
	o.Faults[k] += n
}

func (o *Outcome) Probe(k string, n int64) {
	if o.Probes == nil {
		o.Probes = map[string]int64{}
	}
	o.Probes[k] += n
}

func (o *Outcome) Violate(prop, class, format string, a ...any) {
	msg := fmt.Sprintf(format, a...)
	if len(msg) > 1500 {
		msg = msg[:1500] + "..."
	}
	o.Violations = append(o.Violations, Violation{prop, class, msg})
}

// Absorb adds the scheduler result of one simrt.Run to the outcome and turns
// abnormal endings into violations (class prefix "sim.").
func (o *Outcome) Absorb(prop string, phase string, r *simrt.Result) bool {
	o.Steps += r.Steps
	o.Switches += r.Switches
	o.SimMs += r.Elapsed.Milliseconds()
	o.TraceHash = strconv.FormatUint(mix(parseU(o.TraceHash), r.TraceHash), 16)
	if r.ChildFirst > 0 {
		o.Fault("child_goroutine_ran_first", int64(r.ChildFirst))
	}
	if r.TimerFirst > 0 {
		o.Fault("timer_before_runnable", int64(r.TimerFirst))
	}
	if !r.Failed() {
		return true
	}
	o.Dirty = true
	switch {
	case r.Exit != nil:
		o.Violate(prop, "sim.exit."+phase, "os.Exit(%d) called by goroutine %s during %s", *r.Exit, r.PanicG, phase)
	case r.Panic != "":
		o.Violate(prop, "sim.panic."+phase, "panic in goroutine %s during %s: %s", r.PanicG, phase, r.Panic)
	case r.Deadlock:
		o.Violate(prop, "sim.deadlock."+phase, "deadlock during %s: nothing runnable, no timer; goroutines: %s", phase, strings.Join(r.Blocked, " "))
	case r.Leaked:
		if len(o.Violations) == 0 {
			o.Violate(prop, "sim.leak."+phase, "goroutines keep running long after the workload of %s has returned: %s", phase, strings.Join(r.Blocked, " "))
		}
	case r.Budget:
		o.Inconclusive = "step budget exhausted during " + phase
	}
	return false
}

func parseU(s string) uint64 {
	v, _ := strconv.ParseUint(s, 16, 64)
	return v
}

func mix(a, b uint64) uint64 {
	z := a*0x9E3779B97F4A7C15 + b
	z = (z ^ (z >> 30)) * 0xBF58476D1CE4E5B9
	z = (z ^ (z >> 27)) * 0x94D049BB133111EB
	return z ^ (z >> 31)
}

// Mix is exported for harness state hashes.
func Mix(a, b uint64) uint64 { return mix(a, b) }

// HashBytes folds b into h (FNV-1a).
func HashBytes(h uint64, b []byte) uint64 {
	if h == 0 {
		h = 14695981039346656037
	}
	for _, c := range b {
		h ^= uint64(c)
		h *= 1099511628211
	}
	h ^= 0xff
	h *= 1099511628211
	return h
}

// Harness is implemented by each harness package.
type Harness interface {
	Name() string
	// Gen builds the case for one seed (pure function of its arguments).
	Gen(prop string, seed uint64, tier string) *Case
	// Run executes the case inside the current synctest bubble.
	Run(t *testing.T, c *Case) *Outcome
}

// Preparer is implemented by harnesses that build process-independent fixtures before a case runs.
type Preparer interface {
	Prepare(t *testing.T, c *Case)
}

type line struct {
	T        string   `json:"t"`
	Idx      int      `json:"idx"`
	Seed     uint64   `json:"seed"`
	Outcome  *Outcome `json:"outcome,omitempty"`
	CaseFile string   `json:"case_file,omitempty"`
	Info     string   `json:"info,omitempty"`
}

var outf *os.File

func emit(l line) {
	b, _ := json.Marshal(l)
	b = append(b, '\n')
	if outf != nil {
		outf.Write(b)
	} else {
		os.Stdout.Write(b)
	}
}

// SeedFor derives the seed of run idx from the base seed.
func SeedFor(base uint64, idx int) uint64 {
	return mix(base^0xA5A5A5A5DEADBEEF, uint64(idx)+1) | 1
}

func envInt(k string, def int) int {
	if v := os.Getenv(k); v != "" {
		n, err := strconv.Atoi(v)
		if err == nil {
			return n
		}
	}
	return def
}

// Main is the body of the single Test function of a harness package.
func Main(t *testing.T, h Harness) {
	mode := os.Getenv("VSIM_MODE")
	if mode == "" {
		t.Skip("VSIM_MODE not set (run through vcheck)")
	}
	if p := os.Getenv("VSIM_OUT"); p != "" {
		f, err := os.OpenFile(p, os.O_WRONLY|os.O_CREATE|os.O_APPEND, 0644)
		if err != nil {
			fmt.Println("hx: cannot open VSIM_OUT:", err)
			os.Exit(2)
		}
		outf = f
	}
	prop := os.Getenv("VSIM_PROP")
	tier := os.Getenv("VSIM_TIER")
	if tier == "" {
		tier = "quick"
	}
	switch mode {
	case "replay":
		b, err := os.ReadFile(os.Getenv("VSIM_CASE"))
		if err != nil {
			fmt.Println("hx: cannot read case:", err)
			os.Exit(2)
		}
		var c Case
		if err := json.Unmarshal(b, &c); err != nil {
			// a replay file wraps the case
			fmt.Println("hx: bad case file:", err)
			os.Exit(2)
		}
		emit(line{T: "start", Idx: 0, Seed: c.Seed})
		runOne(t, h, &c, 0, "")
	case "gen":
		// print the generated case of one index (debugging aid)
		base, _ := strconv.ParseUint(os.Getenv("VSIM_BASE"), 10, 64)
		idx := envInt("VSIM_FROM", 0)
		runtime.VerifSetSeed(SeedFor(base, idx) | 1)
		c := h.Gen(prop, SeedFor(base, idx), tier)
		runtime.VerifSetSeed(0)
		c.Harness, c.Prop, c.Tier, c.Seed = h.Name(), prop, tier, SeedFor(base, idx)
		b, _ := json.MarshalIndent(c, "", " ")
		os.Stdout.Write(b)
	case "batch":
		base, _ := strconv.ParseUint(os.Getenv("VSIM_BASE"), 10, 64)
		from, to := envInt("VSIM_FROM", 0), envInt("VSIM_TO", 1)
		deadline := int64(envInt("VSIM_DEADLINE", 0))
		dir := os.Getenv("VSIM_DIR")
		for i := from; i < to; i++ {
			if deadline != 0 && time.Now().Unix() >= deadline {
				emit(line{T: "stop", Idx: i, Info: "deadline"})
				break
			}
			seed := SeedFor(base, i)
			emit(line{T: "start", Idx: i, Seed: seed})
			runtime.VerifSetSeed(seed | 1) // generation must not depend on map iteration order either
			c := h.Gen(prop, seed, tier)
			runtime.VerifSetSeed(0)
			c.Harness, c.Prop, c.Tier, c.Seed = h.Name(), prop, tier, seed
			runOne(t, h, c, i, dir)
		}
		emit(line{T: "end"})
	default:
		fmt.Println("hx: unknown VSIM_MODE", mode)
		os.Exit(2)
	}
}

func runOne(t *testing.T, h Harness, c *Case, idx int, dir string) {
	var out *Outcome
	finish := func() {
		out.Seed = c.Seed
		l := line{T: "done", Idx: idx, Seed: c.Seed, Outcome: out}
		if (len(out.Violations) > 0 || out.Dirty) && dir != "" {
			fn := fmt.Sprintf("%s/case-%d.json", dir, idx)
			b, _ := json.Marshal(c)
			os.WriteFile(fn, b, 0644)
			l.CaseFile = fn
		}
		emit(l)
	}
	if p, ok := h.(Preparer); ok {
		// set-up shared by many cases (template directories) happens in a bubble of its own: what it does to the
		// fake clock and to the scheduler must not depend on whether an earlier process has done it already
		synctest.Test(t, func(t *testing.T) {
			runtime.VerifSetSeed(1)
			p.Prepare(t, c)
			runtime.VerifSetSeed(0)
		})
	}
	synctest.Test(t, func(t *testing.T) {
		runtime.VerifSetSeed(c.Seed | 1)
		out = h.Run(t, c)
		if out.Dirty {
			// goroutines of the failed run are still blocked inside the bubble: leave the process
			finish()
			if outf != nil {
				outf.Close()
			}
			os.Exit(3)
		}
		runtime.VerifSetSeed(0)
	})
	if out.Post != nil {
		out.Post(out)
	}
	finish()
}

// ---------------------------------------------------------------- generator PRNG

// Rng is SplitMix64; all generator choices come from one of these.
type Rng struct{ s uint64 }

func NewRng(seed uint64) *Rng { return &Rng{s: seed} }

func (r *Rng) U64() uint64 {
	r.s += 0x9E3779B97F4A7C15
	z := r.s
	z = (z ^ (z >> 30)) * 0xBF58476D1CE4E5B9
	z = (z ^ (z >> 27)) * 0x94D049BB133111EB
	return z ^ (z >> 31)
}
func (r *Rng) Intn(n int) int {
	if n <= 1 {
		return 0
	}
	return int(r.U64() % uint64(n))
}
func (r *Rng) Range(lo, hi int) int { return lo + r.Intn(hi-lo+1) }
func (r *Rng) Float() float64       { return float64(r.U64()>>11) / (1 << 53) }
func (r *Rng) Chance(p float64) bool { return r.Float() < p }
func (r *Rng) Bytes(n int) []byte {
	b := make([]byte, n)
	for i := 0; i < n; i += 8 {
		v := r.U64()
		for j := 0; j < 8 && i+j < n; j++ {
			b[i+j] = byte(v >> (8 * j))
		}
	}
	return b
}
func (r *Rng) Fork() *Rng { return NewRng(r.U64()) }

// Pick returns one of the weighted alternatives (index).
func (r *Rng) Pick(weights ...int) int {
	t := 0
	for _, w := range weights {
		t += w
	}
	x := r.Intn(t)
	for i, w := range weights {
		if x < w {
			return i
		}
		x -= w
	}
	return len(weights) - 1
}

// J marshals v (generator convenience).
func J(v any) json.RawMessage {
	b, err := json.Marshal(v)
	if err != nil {
		panic(err)
	}
	return b
}

// RunDir makes an empty private directory for one run below VSIM_DIR (or
// the system temp dir); the name is a function of (tag, seed).
func RunDir(tag string, seed uint64) string {
	base := os.Getenv("VSIM_DIR")
	if base == "" {
		base = os.TempDir()
	}
	d := fmt.Sprintf("%s/%s-%016x", base, tag, seed)
	os.RemoveAll(d)
	if err := os.MkdirAll(d, 0770); err != nil {
		fmt.Println("hx: cannot make run dir:", err)
		os.Exit(2)
	}
	return d
}
