// Package qdbsim: deterministic simulation of lib/others/qdb (property C19).
package qdbsim

import (
	"bytes"
	"encoding/binary"
	"encoding/json"
	"fmt"
	"os"
	"path/filepath"
	"runtime"
	"sort"
	"testing"
	"time"

	"github.com/anishathalye/porcupine"
	"github.com/piotrnar/gocoin/lib/others/qdb"

	"verif/harness/hx"
	"verif/sim/simos"
	"verif/sim/simrt"
	"verif/sim/simsync"
)

const prop = "C19"

type Cfg struct {
	Keys             int     `json:"keys"`
	MaxPending       uint32  `json:"max_pending"`
	MaxPendingNoSync uint32  `json:"max_pending_nosync"`
	DefragPerc       uint32  `json:"defrag_perc"`
	ForcedPerc       uint32  `json:"forced_perc"`
	Volatile         bool    `json:"volatile"`
	LoadData         bool    `json:"load_data"`
	WalkFlags        bool    `json:"walk_flags"` // open with a walk function that sets NO_CACHE / NO_BROWSE
	Clients          int     `json:"clients"`
	YieldP           float64 `json:"yield_p"`
	TimerP           float64 `json:"timer_p"`
	MaxConsec        int     `json:"max_consec"`
	CrashPoints      int     `json:"crash_points"` // 0 = none, -1 = all, n = seeded subset of about n
	Torn             bool    `json:"torn"`
	SchedSeed        uint64  `json:"sched_seed"`
	PCT         int     `json:"pct"`
	PCTSteps    int     `json:"pct_steps"`
	ChildFirstP float64 `json:"child_first_p,omitempty"`
}

type Op struct {
	C   int    `json:"c"`            // client (0 = main)
	Op  string `json:"op"`           // put putext del get browse browseall flags count sync nosync defrag flush reopen barrier peersbrowse
	K   int    `json:"k,omitempty"`  // key index
	Len int    `json:"len,omitempty"`
	Fl  uint32 `json:"fl,omitempty"`
	ID  int    `json:"id"` // unique id (value pattern)
	F   bool   `json:"f,omitempty"` // force (defrag)
}

type H struct{}

func (H) Name() string { return "qdbsim" }

var valueLens = []int{0, 1, 7, 8, 9, 23, 24, 100, 1000, 4096, 65535, 65536, 70000}

func (H) Gen(p string, seed uint64, tier string) *hx.Case {
	r := hx.NewRng(seed)
	cfg := Cfg{
		Keys:             r.Range(3, 12),
		MaxPending:       uint32(r.Range(0, 8)),
		MaxPendingNoSync: uint32(r.Range(2, 16)),
		DefragPerc:       uint32([]int{1, 10, 50, 200}[r.Intn(4)]),
		ForcedPerc:       uint32([]int{5, 30, 100, 300}[r.Intn(4)]),
		Volatile:         r.Chance(0.15),
		LoadData:         r.Chance(0.5),
		WalkFlags:        r.Chance(0.3),
		Clients:          1,
		MaxConsec:        []int{50, 500, 5000}[r.Intn(3)],
		SchedSeed:        r.U64(),
	}
	if r.Chance(0.4) {
		cfg.Clients = 2 + r.Intn(2)
	}
	switch r.Intn(4) {
	case 0:
		cfg.YieldP = 0
	case 1:
		cfg.YieldP = 0.05
	case 2:
		cfg.YieldP = 0.2
	default:
		cfg.YieldP = 0.5
	}
	if r.Chance(0.3) {
		cfg.TimerP = 0.1
	}
	if r.Chance(0.3) {
		cfg.PCT, cfg.PCTSteps = r.Range(1, 4), []int{50, 300, 2000, 10000}[r.Intn(4)]
	}
	if r.Chance(0.25) {
		cfg.ChildFirstP = []float64{0.2, 0.6, 1}[r.Intn(3)]
	}
	if tier == "thorough" {
		cfg.CrashPoints = -1
	} else {
		cfg.CrashPoints = 24
	}
	cfg.Torn = r.Chance(0.5)
	nops := r.Range(5, 80)
	if r.Chance(0.3) {
		nops = r.Range(3, 12) // many short ones
	}
	var ops []json.RawMessage
	id := 0
	small := r.Chance(0.7) // mostly small values
	for i := 0; i < nops; i++ {
		id++
		o := Op{ID: id, K: r.Intn(cfg.Keys)}
		if cfg.Clients > 1 {
			o.C = r.Intn(cfg.Clients)
		}
		switch r.Pick(30, 6, 12, 14, 4, 3, 4, 3, 6, 2, 4, 2, 5, 4, 2) {
		case 0:
			o.Op = "put"
		case 1:
			o.Op = "putext"
			o.Fl = []uint32{0, qdb.NO_BROWSE, qdb.NO_CACHE, qdb.NO_BROWSE | qdb.NO_CACHE}[r.Intn(4)]
		case 2:
			o.Op = "del"
		case 3:
			o.Op = "get"
		case 4:
			o.Op = "browse"
			o.Fl = []uint32{0, 0, qdb.NO_CACHE, qdb.YES_CACHE, qdb.BR_ABORT}[r.Intn(5)]
		case 5:
			o.Op = "browseall"
		case 6:
			o.Op = "flags"
			o.Fl = []uint32{qdb.NO_BROWSE, qdb.YES_BROWSE, qdb.NO_CACHE, qdb.YES_CACHE, qdb.NO_BROWSE | qdb.NO_CACHE}[r.Intn(5)]
		case 7:
			o.Op = "count"
		case 8:
			o.Op, o.C = "sync", 0
		case 9:
			o.Op, o.C = "nosync", 0
		case 10:
			o.Op, o.C = "defrag", 0
			o.F = r.Chance(0.5)
		case 11:
			o.Op, o.C = "flush", 0
		case 12:
			o.Op, o.C = "reopen", 0
		case 13:
			o.Op, o.C = "barrier", 0
		case 14:
			o.Op, o.C = "peersbrowse", 0
		}
		if o.Op == "put" || o.Op == "putext" {
			if small {
				o.Len = r.Intn(40)
			} else {
				o.Len = valueLens[r.Intn(len(valueLens))]
			}
			if r.Chance(0.1) {
				o.Len = valueLens[r.Intn(len(valueLens))]
			}
		}
		ops = append(ops, hx.J(o))
	}
	return &hx.Case{Cfg: hx.J(cfg), Ops: ops}
}

func value(id, n int) []byte {
	b := make([]byte, n)
	var hdr [8]byte
	binary.LittleEndian.PutUint64(hdr[:], uint64(id)*0x9E3779B97F4A7C15+1)
	for i := range b {
		b[i] = hdr[i&7] ^ byte(i>>3)
	}
	return b
}

func keyOf(k int) qdb.KeyType { return qdb.KeyType(0x1122334400000000 + uint64(k)*0x01000193) }

// version of a key: nil Val = absent
type version struct {
	Val    []byte
	Absent bool
	At     int // simos.LogLen() when the write was invoked
}

type floorT struct {
	At  int   // simos.LogLen() when the floor was established
	Idx []int // per key: index into versions
}

type model struct {
	val      [][]byte // current value per key (nil = absent)
	present  []bool
	flags    []uint32
	flDirty  []bool // flags changed since the record was last written by a put
	versions [][]version
	floors   []floorT
}

func newModel(n int) *model {
	m := &model{val: make([][]byte, n), present: make([]bool, n), flags: make([]uint32, n), flDirty: make([]bool, n), versions: make([][]version, n)}
	for i := range m.versions {
		m.versions[i] = []version{{Absent: true, At: -1}}
	}
	m.floor()
	return m
}

// clientLog is private to one simulated client goroutine during a phase and is
// merged into the shared model at the next quiescent point (the harness itself
// must not add happens-before edges between clients: they would hide races
// from the race-detector arm).
type clientLog struct {
	hist   []porcupine.Operation
	writes []pendingWrite
}

type pendingWrite struct {
	k     int
	v     version
	stamp uint64
}

func (cl *clientLog) write(k int, v []byte, present bool) {
	cl.writes = append(cl.writes, pendingWrite{k, version{Val: v, Absent: !present, At: simos.LogLen()}, simrt.Stamp()})
}

func (r *run) merge(cls []*clientLog) {
	var ws []pendingWrite
	for _, cl := range cls {
		ws = append(ws, cl.writes...)
		r.hist = append(r.hist, cl.hist...)
	}
	sort.Slice(ws, func(i, j int) bool { return ws[i].stamp < ws[j].stamp })
	for _, w := range ws {
		r.m.versions[w.k] = append(r.m.versions[w.k], w.v)
	}
}

func (m *model) floor() {
	f := floorT{At: simos.LogLen(), Idx: make([]int, len(m.val))}
	for k := range m.val {
		// the latest version equal to the current model value
		vs := m.versions[k]
		f.Idx[k] = len(vs) - 1
		for i := len(vs) - 1; i >= 0; i-- {
			if vs[i].Absent == !m.present[k] && (vs[i].Absent || bytes.Equal(vs[i].Val, m.val[k])) {
				f.Idx[k] = i
				break
			}
		}
	}
	m.floors = append(m.floors, f)
}

func applyFlags(cur, res uint32) uint32 {
	if res&qdb.NO_BROWSE != 0 {
		cur |= qdb.NO_BROWSE
	} else if res&qdb.YES_BROWSE != 0 {
		cur &^= qdb.NO_BROWSE
	}
	if res&qdb.NO_CACHE != 0 {
		cur |= qdb.NO_CACHE
	} else if res&qdb.YES_CACHE != 0 {
		cur &^= qdb.NO_CACHE
	}
	return cur
}

// porcupine history entry
type regIn struct {
	Op  string // put del get
	Key int
	Val string
}
type regOut struct {
	Val     string
	Present bool
}

type run struct {
	cfg   Cfg
	out   *hx.Outcome
	dir   string
	db    *qdb.DB
	m     *model
	hist  []porcupine.Operation
	seqOK bool // sequential phase: exact model checks
}

func walkFn(k qdb.KeyType, v []byte) uint32 {
	// deterministic function of the key
	switch (uint64(k) >> 3) % 4 {
	case 0:
		return qdb.NO_CACHE
	case 1:
		return qdb.NO_BROWSE
	}
	return 0
}

func (r *run) open(dir string) *qdb.DB {
	var db *qdb.DB
	o := &qdb.NewDBOpts{Dir: dir, LoadData: r.cfg.LoadData, Volatile: r.cfg.Volatile,
		ExtraOpts: &qdb.ExtraOpts{DefragPercentVal: r.cfg.DefragPerc, ForcedDefragPerc: r.cfg.ForcedPerc, MaxPending: r.cfg.MaxPending, MaxPendingNoSync: r.cfg.MaxPendingNoSync}}
	if r.cfg.WalkFlags && r.cfg.LoadData {
		o.WalkFunction = walkFn
	}
	qdb.NewDBExt(&db, o)
	return db
}

func (r *run) viol(class, format string, a ...any) {
	r.out.Violate(prop, class, format, a...)
}

func short(b []byte) string {
	if b == nil {
		return "<absent>"
	}
	if len(b) > 12 {
		return fmt.Sprintf("%x..(%d bytes)", b[:12], len(b))
	}
	return fmt.Sprintf("%x(%d bytes)", b, len(b))
}

// waitQuiet waits until the db mutex has been released by whatever goroutine holds it.
func waitQuiet(db *qdb.DB) {
	db.Mutex.Lock()
	db.Mutex.Unlock()
}

func (cl *clientLog) record(c int, in regIn, o regOut, call, ret uint64) {
	cl.hist = append(cl.hist, porcupine.Operation{ClientId: c, Input: in, Call: int64(call), Output: o, Return: int64(ret)})
}

// doOp executes one non-barrier operation on behalf of client c.
func (r *run) doOp(o *Op, seq bool, cl *clientLog) {
	db, m := r.db, r.m
	k := o.K
	if k >= r.cfg.Keys {
		k = k % r.cfg.Keys
	}
	key := keyOf(k)
	switch o.Op {
	case "put", "putext":
		v := value(o.ID, o.Len)
		cl.write(k, v, true)
		call := simrt.Stamp()
		if o.Op == "put" {
			db.Put(key, append(make([]byte, 0, len(v)), v...))
		} else {
			db.PutExt(key, append(make([]byte, 0, len(v)), v...), o.Fl)
		}
		ret := simrt.Stamp()
		cl.record(o.C, regIn{"put", k, string(v)}, regOut{}, call, ret)
		if seq {
			m.val[k], m.present[k], m.flDirty[k] = v, true, false
			if o.Op == "put" {
				m.flags[k] = 0
			} else {
				m.flags[k] = o.Fl
			}
		}
	case "del":
		cl.write(k, nil, false)
		call := simrt.Stamp()
		db.Del(key)
		ret := simrt.Stamp()
		cl.record(o.C, regIn{"del", k, ""}, regOut{}, call, ret)
		if seq {
			m.val[k], m.present[k], m.flags[k], m.flDirty[k] = nil, false, 0, false
		}
	case "get":
		call := simrt.Stamp()
		got := db.Get(key)
		ret := simrt.Stamp()
		cp := append([]byte(nil), got...)
		cl.record(o.C, regIn{"get", k, ""}, regOut{string(cp), got != nil}, call, ret)
		if seq {
			if (got != nil) != m.present[k] || !bytes.Equal(got, m.val[k]) {
				r.viol("live.get", "op#%d Get(key %d) = %s, map model holds %s", o.ID, k, short(got), short(m.val[k]))
			}
			// Get sets YES_CACHE
			if m.present[k] && m.flags[k]&qdb.NO_CACHE != 0 {
				m.flags[k] &^= qdb.NO_CACHE
				m.flDirty[k] = true
			}
		}
	case "count":
		n := db.Count()
		if seq {
			want := 0
			for _, p := range m.present {
				if p {
					want++
				}
			}
			if n != want {
				r.viol("live.count", "op#%d Count() = %d, map model holds %d keys", o.ID, n, want)
			}
		}
	case "flags":
		db.ApplyFlags(key, o.Fl)
		if seq && m.present[k] {
			nf := applyFlags(m.flags[k], o.Fl)
			if nf != m.flags[k] {
				m.flags[k], m.flDirty[k] = nf, true
			}
		}
	case "browse", "browseall":
		seen := map[qdb.KeyType][]byte{}
		dup := false
		n := 0
		walk := func(kk qdb.KeyType, v []byte) uint32 {
			if _, ok := seen[kk]; ok {
				dup = true
			}
			seen[kk] = append([]byte{}, v...)
			n++
			if o.Fl == qdb.BR_ABORT && n >= 2 {
				return qdb.BR_ABORT
			}
			return o.Fl
		}
		if o.Op == "browse" {
			db.Browse(walk)
		} else {
			db.BrowseAll(walk)
		}
		if seq {
			if dup {
				r.viol("live.browse", "op#%d %s visited a key twice", o.ID, o.Op)
			}
			want := 0
			for i := range m.present {
				if m.present[i] && (o.Op == "browseall" || m.flags[i]&qdb.NO_BROWSE == 0) {
					want++
				}
			}
			for kk, v := range seen {
				ki := -1
				for i := 0; i < r.cfg.Keys; i++ {
					if keyOf(i) == kk {
						ki = i
					}
				}
				if ki < 0 || !m.present[ki] {
					r.viol("live.browse", "op#%d %s visited key %x which the model does not hold", o.ID, o.Op, uint64(kk))
					continue
				}
				if o.Op == "browse" && m.flags[ki]&qdb.NO_BROWSE != 0 {
					r.viol("live.browse", "op#%d Browse visited key %d which carries NO_BROWSE", o.ID, ki)
				}
				if !bytes.Equal(v, m.val[ki]) {
					r.viol("live.browse", "op#%d %s gave %s for key %d, model holds %s", o.ID, o.Op, short(v), ki, short(m.val[ki]))
				}
				nf := applyFlags(m.flags[ki], o.Fl)
				if nf != m.flags[ki] {
					m.flags[ki], m.flDirty[ki] = nf, true
				}
			}
			if o.Fl != qdb.BR_ABORT && len(seen) != want {
				r.viol("live.browse", "op#%d %s visited %d records, model expects %d", o.ID, o.Op, len(seen), want)
			}
		}
	case "peersbrowse":
		// the way peersdb expires records: collect keys while browsing, delete afterwards
		var del []qdb.KeyType
		db.Browse(func(kk qdb.KeyType, v []byte) uint32 {
			if len(v)%3 == 0 {
				del = append(del, kk)
			}
			return 0
		})
		sort.Slice(del, func(i, j int) bool { return del[i] < del[j] })
		for _, kk := range del {
			for i := 0; i < r.cfg.Keys; i++ {
				if keyOf(i) == kk {
					cl.write(i, nil, false)
					call := simrt.Stamp()
					db.Del(kk)
					ret := simrt.Stamp()
					cl.record(o.C, regIn{"del", i, ""}, regOut{}, call, ret)
					if seq {
						m.val[i], m.present[i], m.flags[i], m.flDirty[i] = nil, false, 0, false
					}
				}
			}
		}
		r.out.Probe("peersdb_style_expiry", 1)
	}
}

// adopt reads the real state at a quiescent point after a concurrent phase and
// checks that every key holds the value of some final write of the phase (or
// its old value when nobody wrote it); the model then continues from there.
func (r *run) adopt(phaseOps []*Op) {
	type cand struct {
		v       []byte
		present bool
	}
	last := map[int]map[int]cand{} // key -> client -> last write
	for _, o := range phaseOps {
		k := o.K % r.cfg.Keys
		switch o.Op {
		case "put", "putext":
			if last[k] == nil {
				last[k] = map[int]cand{}
			}
			last[k][o.C] = cand{value(o.ID, o.Len), true}
		case "del":
			if last[k] == nil {
				last[k] = map[int]cand{}
			}
			last[k][o.C] = cand{nil, false}
		}
	}
	for k := 0; k < r.cfg.Keys; k++ {
		got := r.db.Get(keyOf(k))
		ok := false
		if cs := last[k]; len(cs) > 0 {
			for _, c := range cs {
				if c.present == (got != nil) && bytes.Equal(c.v, got) {
					ok = true
				}
			}
		} else {
			ok = (got != nil) == r.m.present[k] && bytes.Equal(got, r.m.val[k])
		}
		if !ok {
			r.viol("live.concurrent-final", "after a concurrent phase key %d holds %s, which is not the final write of any client (model before the phase: %s)", k, short(got), short(r.m.val[k]))
		}
		r.m.val[k], r.m.present[k] = nil, got != nil
		if got != nil {
			r.m.val[k] = append(make([]byte, 0, len(got)), got...)
		}
		r.m.flDirty[k] = true
	}
	// flags were changed concurrently: learn the observable part (browsability)
	vis := map[qdb.KeyType]bool{}
	r.db.Browse(func(k qdb.KeyType, v []byte) uint32 { vis[k] = true; return 0 })
	for k := 0; k < r.cfg.Keys; k++ {
		if r.m.present[k] {
			if vis[keyOf(k)] {
				r.m.flags[k] &^= qdb.NO_BROWSE
			} else {
				r.m.flags[k] |= qdb.NO_BROWSE
			}
		}
	}
}

// resyncFlags learns flag state after a reopen for keys whose flags are not pinned.
func (r *run) checkReopened(db *qdb.DB, what string) {
	m := r.m
	all := map[qdb.KeyType][]byte{}
	db.BrowseAll(func(k qdb.KeyType, v []byte) uint32 { all[k] = append([]byte{}, v...); return 0 })
	vis := map[qdb.KeyType]bool{}
	db.Browse(func(k qdb.KeyType, v []byte) uint32 { vis[k] = true; return 0 })
	cnt := db.Count()
	want := 0
	for k := 0; k < r.cfg.Keys; k++ {
		key := keyOf(k)
		v, ok := all[key]
		if m.present[k] {
			want++
		}
		if ok != m.present[k] || !bytes.Equal(v, m.val[k]) {
			got := v
			if !ok {
				got = nil
			}
			r.viol("reopen.clean.value", "%s: key %d holds %s, map model holds %s", what, k, short(got), short(m.val[k]))
			continue
		}
		if !ok {
			continue
		}
		walked := r.cfg.WalkFlags && r.cfg.LoadData
		if !m.flDirty[k] && !walked {
			if vis[key] != (m.flags[k]&qdb.NO_BROWSE == 0) {
				r.viol("reopen.clean.flags", "%s: key %d browsable=%v, but it was stored with flags %#x", what, k, vis[key], m.flags[k])
			}
		} else {
			// flags are hints that were changed without rewriting the record: learn them
			if vis[key] {
				m.flags[k] &^= qdb.NO_BROWSE
			} else {
				m.flags[k] |= qdb.NO_BROWSE
			}
		}
		m.flDirty[k] = true // cache flag may differ; not observable
	}
	if len(all) != want || cnt != want {
		r.viol("reopen.clean.count", "%s: %d records browsed, Count()=%d, map model holds %d", what, len(all), cnt, want)
	}
}

func (H) Run(t *testing.T, c *hx.Case) *hx.Outcome {
	out := &hx.Outcome{}
	var cfg Cfg
	if err := json.Unmarshal(c.Cfg, &cfg); err != nil {
		out.Inconclusive = "bad cfg"
		return out
	}
	var ops []*Op
	for _, raw := range c.Ops {
		var o Op
		if json.Unmarshal(raw, &o) == nil {
			if cfg.Clients <= 1 {
				o.C = 0
			} else {
				o.C = o.C % cfg.Clients
			}
			ops = append(ops, &o)
		}
	}
	root := hx.RunDir("qdb", c.Seed)
	defer os.RemoveAll(root)
	dir := filepath.Join(root, "live")
	os.MkdirAll(dir, 0770)
	simos.Reset(dir)
	r := &run{cfg: cfg, out: out, dir: dir}
	scfg := simrt.Config{Seed: cfg.SchedSeed, YieldP: cfg.YieldP, TimerP: cfg.TimerP, MaxConsec: cfg.MaxConsec, PCT: cfg.PCT, PCTSteps: cfg.PCTSteps, ChildFirstP: cfg.ChildFirstP, StepBudget: 3_000_000}

	if os.Getenv("VSIM_DEBUG") != "" {
		simrt.Debug = func(w, id string) { fmt.Fprintln(os.Stderr, "DBG", w, id, runtime.VerifCtr()) }
	}
	res := simrt.Run(scfg, func() {
		r.m = newModel(cfg.Keys)
		r.db = r.open(dir + "/db")
		// phases
		i := 0
		for i < len(ops) {
			// gather a phase of non-barrier ops
			j := i
			for j < len(ops) && !isBarrier(ops[j].Op) {
				j++
			}
			phase := ops[i:j]
			if len(phase) > 0 {
				clients := map[int][]*Op{}
				for _, o := range phase {
					clients[o.C] = append(clients[o.C], o)
				}
				if len(clients) <= 1 {
					cl := &clientLog{}
					for _, o := range phase {
						r.doOp(o, true, cl)
						r.merge([]*clientLog{cl})
						*cl = clientLog{}
					}
				} else {
					out.Probe("concurrent_clients", 1)
					var wg simsync.WaitGroup
					ids := make([]int, 0, len(clients))
					for cid := range clients {
						ids = append(ids, cid)
					}
					sort.Ints(ids)
					var cls []*clientLog
					for _, cid := range ids {
						cops := clients[cid]
						cl := &clientLog{}
						cls = append(cls, cl)
						wg.Add(1)
						simrt.Go(func() {
							defer wg.Done()
							for _, o := range cops {
								r.doOp(o, false, cl)
							}
						})
					}
					wg.Wait()
					r.merge(cls)
					waitQuiet(r.db)
					r.adopt(phase)
				}
			}
			if j < len(ops) {
				r.barrier(ops[j])
			}
			i = j + 1
		}
		// final clean close + reopen: exact equality
		waitQuiet(r.db)
		r.db.Close()
		r.m.floor()
		db := r.open(dir + "/db")
		r.checkReopened(db, "final close + reopen")
		db.Close()
		out.Probe("reopen_clean", 1)
	})
	out.Evals = 1
	{
		var ol []string
		for i, o := range ops {
			if i >= 40 {
				ol = append(ol, fmt.Sprintf("... %d more", len(ops)-i))
				break
			}
			s := fmt.Sprintf("c%d %s", o.C, o.Op)
			switch o.Op {
			case "put", "putext":
				s += fmt.Sprintf(" k%d len=%d fl=%d", o.K%cfg.Keys, o.Len, o.Fl)
			case "del", "get", "flags":
				s += fmt.Sprintf(" k%d fl=%d", o.K%cfg.Keys, o.Fl)
			case "defrag":
				s += fmt.Sprintf(" force=%v", o.F)
			}
			ol = append(ol, s)
		}
		out.Sample = map[string]any{"cfg": cfg, "history": ol, "fs_effects": simos.LogLen()}
	}
	if !out.Absorb(prop, "history", &res) {
		return out
	}
	if os.Getenv("VSIM_DEBUG") != "" {
		fmt.Fprintln(os.Stderr, "DBG after history ctr", runtime.VerifCtr(), "steps", res.Steps, "hash", res.TraceHash)
	}
	live := simos.Snapshot()
	out.StateHash = fmt.Sprintf("%x", modelHash(r.m))
	// counters of what happened
	for _, e := range live {
		if e.Kind == simos.KRemove {
			out.Probe("file_removed", 1)
		}
	}

	// sanity of the seam: the materialised full log equals the live directory
	if h1, err := simos.TreeHash(dir); err == nil {
		chk := filepath.Join(root, "chk")
		if err := simos.Materialize("", live, len(live), -1, chk); err != nil {
			out.Violations = nil
			out.Inconclusive = "seam audit: cannot materialise: " + err.Error()
			out.Dirty = true
			fmt.Fprintln(os.Stderr, "SEAM AUDIT FAILED:", err)
			os.Exit(2)
		}
		h2, _ := simos.TreeHash(chk)
		if h1 != h2 {
			fmt.Fprintln(os.Stderr, "SEAM AUDIT FAILED: replaying the effect log does not reproduce the live directory")
			os.Exit(2)
		}
		os.RemoveAll(chk)
	}

	// porcupine over the concurrent part of the history
	hist := r.hist
	if cfg.Clients > 1 && len(hist) > 0 {
		out.Post = func(o *hx.Outcome) { checkLinearizable(o, hist) }
	}

	// crash images
	if cfg.CrashPoints != 0 && len(out.Violations) == 0 {
		r.crashImages(root, live, c.Seed)
	}
	return out
}

func isBarrier(op string) bool {
	switch op {
	case "sync", "nosync", "defrag", "flush", "reopen", "barrier", "peersbrowse":
		return true
	}
	return false
}

func (r *run) barrier(o *Op) {
	db := r.db
	waitQuiet(db)
	switch o.Op {
	case "sync":
		db.Sync()
		waitQuiet(db)
		if !r.cfg.Volatile {
			r.m.floor()
		}
		r.out.Probe("explicit_sync", 1)
	case "nosync":
		db.NoSync()
	case "defrag":
		before := simos.LogLen()
		did := db.Defrag(o.F)
		waitQuiet(db)
		if did {
			if o.F {
				r.out.Probe("forced_defrag", 1)
			} else {
				r.out.Probe("auto_defrag", 1)
			}
		}
		_ = before
	case "flush":
		db.Flush()
	case "reopen":
		db.Close()
		r.m.floor()
		r.db = r.open(r.dir + "/db")
		r.checkReopened(r.db, fmt.Sprintf("op#%d close + reopen", o.ID))
		r.out.Probe("reopen_clean", 1)
	case "peersbrowse":
		cl := &clientLog{}
		r.doOp(o, true, cl)
		r.merge([]*clientLog{cl})
		waitQuiet(db)
	case "barrier":
	}
}

func modelHash(m *model) uint64 {
	h := uint64(0)
	for k := range m.val {
		h = hx.HashBytes(h, []byte{byte(k), map[bool]byte{false: 0, true: 1}[m.present[k]]})
		h = hx.HashBytes(h, m.val[k])
	}
	return h
}

// ---------------------------------------------------------------- crash recovery

func (r *run) pickCrashPoints(log []simos.Effect, seed uint64) []int {
	var cand []int
	for i := range log {
		if log[i].Mutating() {
			cand = append(cand, i)
		}
	}
	if r.cfg.CrashPoints < 0 || len(cand) <= r.cfg.CrashPoints {
		return cand
	}
	rng := hx.NewRng(seed ^ 0xC4A54)
	// biased subset: renames, removes, creates, first/last write of a file always candidates with high weight
	w := make([]int, len(cand))
	lastWrite := map[string]int{}
	firstWrite := map[string]bool{}
	for ci, i := range cand {
		e := &log[i]
		w[ci] = 1
		switch e.Kind {
		case simos.KRemove, simos.KRename, simos.KCreate, simos.KTruncate:
			w[ci] = 6
		case simos.KWrite:
			if !firstWrite[e.Path] {
				firstWrite[e.Path] = true
				w[ci] = 4
			}
			lastWrite[e.Path] = ci
		}
	}
	for _, ci := range lastWrite {
		w[ci] = 4
	}
	chosen := map[int]bool{}
	total := 0
	for _, x := range w {
		total += x
	}
	for n := 0; n < r.cfg.CrashPoints*3 && len(chosen) < r.cfg.CrashPoints; n++ {
		x := rng.Intn(total)
		for ci, wt := range w {
			if x < wt {
				chosen[cand[ci]] = true
				break
			}
			x -= wt
		}
	}
	var res []int
	for i := range chosen {
		res = append(res, i)
	}
	sort.Ints(res)
	return res
}

func (r *run) crashImages(root string, log []simos.Effect, seed uint64) {
	points := r.pickCrashPoints(log, seed)
	rng := hx.NewRng(seed ^ 0x7041)
	// which goroutine-phase an effect belongs to (probe names)
	for _, k := range points {
		if !r.recoverImage(root, log, k, -1) {
			return
		}
	}
	// the image after the last effect (process dies after everything)
	if !r.recoverImage(root, log, len(log), -1) {
		return
	}
	// torn (short) last writes are outside the wording of C19 ("between any two of the
	// store's file operations"): explored, counted, never reported as violations
	if r.cfg.Torn {
		n := 0
		for _, k := range points {
			if n >= 2 {
				break
			}
			if log[k].Kind == simos.KWrite && len(log[k].Data) > 1 && rng.Chance(0.3) {
				n++
				nv := len(r.out.Violations)
				ok := r.recoverImage(root, log, k, 1+rng.Intn(len(log[k].Data)-1))
				if len(r.out.Violations) > nv {
					for _, v := range r.out.Violations[nv:] {
						r.out.Probe("torn_write_anomaly:"+v.Class, 1)
					}
					r.out.Violations = r.out.Violations[:nv]
				}
				if !ok {
					return
				}
			}
		}
	}
}

// allowed returns the versions key k may hold after a crash that preserved effects [0,upto).
func (r *run) allowed(k int, floorUpto, upto int) []version {
	m := r.m
	fl := m.floors[0]
	for _, f := range m.floors {
		if f.At <= floorUpto {
			fl = f
		}
	}
	var res []version
	vs := m.versions[k]
	for i := fl.Idx[k]; i < len(vs); i++ {
		if i == fl.Idx[k] || vs[i].At < upto {
			res = append(res, vs[i])
		}
	}
	return res
}

func (r *run) recoverImage(root string, log []simos.Effect, k int, torn int) bool {
	out := r.out
	img := filepath.Join(root, "img")
	os.RemoveAll(img)
	if err := simos.Materialize("", log, k, torn, img); err != nil {
		fmt.Fprintln(os.Stderr, "cannot materialise crash image:", err)
		os.Exit(2)
	}
	defer os.RemoveAll(img)
	out.Evals++
	out.Fault("process_death_at_fs_effect", 1)
	upto := k
	kind := "crash"
	if torn >= 0 {
		out.Fault("torn_last_write", 1)
		out.Probe("torn_write_images", 1)
		upto = k + 1
		kind = "crash.torn"
	}
	if k < len(log) {
		if g := log[k].G; g != "0" {
			out.Probe("crash_in_background_goroutine", 1)
		}
		switch {
		case isIdx01(log[k].Path) || (k > 0 && isIdx01(log[k-1].Path)):
			out.Probe("crash_in_defrag", 1)
		case filepath.Base(log[k].Path) == "qdbidx.log" || filepath.Ext(log[k].Path) == ".dat":
			out.Probe("crash_in_sync", 1)
		}
	}
	desc := func() string {
		s := fmt.Sprintf("crash image = effects[0:%d] of %d", k, len(log))
		if torn >= 0 {
			s += fmt.Sprintf(" + first %d of %d bytes of effect %d", torn, len(log[k].Data), k)
		}
		if k < len(log) {
			e := log[k]
			s += fmt.Sprintf("; next effect would be %s %s", e.Kind, e.Path)
			if e.Kind == simos.KWrite {
				s += fmt.Sprintf(" @%d+%d", e.Off, len(e.Data))
			}
			if e.Path2 != "" {
				s += " -> " + e.Path2
			}
			lo := k - 6
			if lo < 0 {
				lo = 0
			}
			s += "; preceding effects:"
			for i := lo; i < k; i++ {
				s += fmt.Sprintf(" [%d %s %s", i, log[i].Kind, log[i].Path)
				if log[i].Kind == simos.KWrite {
					s += fmt.Sprintf("@%d+%d", log[i].Off, len(log[i].Data))
				}
				s += "]"
			}
		}
		return s
	}
	simos.Reset(img)
	ok := true
	res := simrt.Run(simrt.Config{Seed: r.cfg.SchedSeed ^ uint64(k), YieldP: 0, MaxConsec: 100000, StepBudget: 2_000_000}, func() {
		db := r.open(img + "/db")
		got := make([][]byte, r.cfg.Keys)
		for key := 0; key < r.cfg.Keys; key++ {
			v := db.Get(keyOf(key))
			got[key] = v
			al := r.allowed(key, k, upto)
			match := false
			for _, a := range al {
				if a.Absent == (v == nil) && (a.Absent || bytes.Equal(a.Val, v)) {
					match = true
				}
			}
			if !match {
				var as []string
				for _, a := range al {
					if a.Absent {
						as = append(as, "<absent>")
					} else {
						as = append(as, short(a.Val))
					}
				}
				everWritten := false
				for _, a := range r.m.versions[key] {
					if a.Absent == (v == nil) && (a.Absent || bytes.Equal(a.Val, v)) {
						everWritten = true
					}
				}
				cl := kind + ".stale-value"
				if !everWritten {
					cl = kind + ".value-never-written"
				}
				r.viol(cl, "after reopening a crash image key %d holds %s; allowed (last synced value or a later written one): %v. %s", key, short(v), as, desc())
				ok = false
			}
		}
		// internal agreement
		n := 0
		db.BrowseAll(func(kk qdb.KeyType, v []byte) uint32 {
			n++
			for key := 0; key < r.cfg.Keys; key++ {
				if keyOf(key) == kk && !bytes.Equal(v, got[key]) {
					r.viol(kind+".browse-vs-get", "after crash recovery BrowseAll gives %s for key %d but Get gave %s. %s", short(v), key, short(got[key]), desc())
					ok = false
				}
			}
			return 0
		})
		if c := db.Count(); c != n {
			r.viol(kind+".count", "after crash recovery Count()=%d but BrowseAll visits %d. %s", c, n, desc())
			ok = false
		}
		if !ok {
			db.Close()
			return
		}
		// the store keeps working after recovery: write, sync, close, reopen
		cur := map[int][]byte{}
		for key := 0; key < r.cfg.Keys; key++ {
			if got[key] != nil {
				cur[key] = append([]byte(nil), got[key]...)
			}
		}
		for j := 0; j < 3 && j < r.cfg.Keys; j++ {
			key := (k + j) % r.cfg.Keys
			if j == 2 {
				db.Del(keyOf(key))
				delete(cur, key)
			} else {
				v := value(1000000+k*4+j, 5+j*30)
				db.Put(keyOf(key), append(make([]byte, 0, len(v)), v...))
				cur[key] = v
			}
		}
		waitQuiet(db)
		db.Sync()
		waitQuiet(db)
		if k%3 == 0 {
			db.Defrag(true)
			waitQuiet(db)
		}
		db.Close()
		db2 := r.open(img + "/db")
		for key := 0; key < r.cfg.Keys; key++ {
			v := db2.Get(keyOf(key))
			w, has := cur[key]
			if has != (v != nil) || !bytes.Equal(v, w) {
				if !has {
					w = nil
				}
				r.viol(kind+".continue", "after crash recovery, further writes, close and reopen, key %d holds %s, expected %s. %s", key, short(v), short(w), desc())
				ok = false
			}
		}
		db2.Close()
	})
	if os.Getenv("VSIM_DEBUG") != "" {
		fmt.Fprintln(os.Stderr, "DBG after recovery", k, torn, "ctr", runtime.VerifCtr(), "steps", res.Steps, "hash", res.TraceHash)
	}
	phase := "recovery"
	if torn >= 0 {
		phase = "recovery-torn"
	}
	if !out.Absorb(prop, phase, &res) {
		if len(out.Violations) > 0 {
			v := &out.Violations[len(out.Violations)-1]
			v.Msg += " | " + desc()
		}
		return false
	}
	return ok
}

func isIdx01(p string) bool {
	b := filepath.Base(p)
	return b == "qdbidx.0" || b == "qdbidx.1"
}

// ---------------------------------------------------------------- linearizability

func checkLinearizable(o *hx.Outcome, hist []porcupine.Operation) {
	if len(hist) > 400 {
		hist = hist[:400]
	}
	mdl := porcupine.Model{
		Partition: func(h []porcupine.Operation) [][]porcupine.Operation {
			by := map[int][]porcupine.Operation{}
			var ks []int
			for _, op := range h {
				k := op.Input.(regIn).Key
				if _, ok := by[k]; !ok {
					ks = append(ks, k)
				}
				by[k] = append(by[k], op)
			}
			sort.Ints(ks)
			var res [][]porcupine.Operation
			for _, k := range ks {
				res = append(res, by[k])
			}
			return res
		},
		Init: func() interface{} { return regOut{} },
		Step: func(state, input, output interface{}) (bool, interface{}) {
			st := state.(regOut)
			in := input.(regIn)
			switch in.Op {
			case "put":
				return true, regOut{in.Val, true}
			case "del":
				return true, regOut{}
			default:
				got := output.(regOut)
				return got.Present == st.Present && got.Val == st.Val, st
			}
		},
		Equal: func(a, b interface{}) bool { return a.(regOut) == b.(regOut) },
	}
	// the history of one run starts from an empty store only if no reopen preceded; the
	// harness records from the first operation of the run, and the store starts empty.
	res := porcupine.CheckOperationsTimeout(mdl, hist, 20*time.Second)
	if o.Porcupine == nil {
		o.Porcupine = map[string]int64{}
	}
	switch res {
	case porcupine.Ok:
		o.Porcupine["ok"]++
	case porcupine.Illegal:
		o.Porcupine["illegal"]++
		o.Violate(prop, "live.linearizability", "the recorded concurrent history of %d put/del/get operations is not linearizable against a per-key register model", len(hist))
	default:
		o.Porcupine["unknown"]++
	}
}
