package netsim

import (
	"testing"

	"verif/harness/chainsim"
	"verif/harness/hx"
)

func TestSim(t *testing.T) { hx.Main(t, chainsim.NetH{}) }
